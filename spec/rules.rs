// spec/rules.rs — the rules of chess, written from the FIDE Laws on raw machine words.
//
// ONE source of truth for every oracle used by the Kani harnesses (`crate::vspec`),
// the native witness search / exhaustive enumerators (`tools/native`), and — through the
// header rewrite documented in DESIGN.md — the Verus units.
//
// Deliberately table-free and in a different algorithmic style from the library:
// geometry by (rank,file) arithmetic, slider attacks by stepping a ray square by square
// (or by flood fills started from the attackers), never by lookup.
//
// Squares are u8 0..63 (a1 = 0, h1 = 7, a8 = 56); colours are usize 0 = white, 1 = black;
// pieces are usize 0..5 = P N B R Q K.  A position is `Pos`.
#![allow(dead_code)]

pub const NOT_A: u64 = 0xfefe_fefe_fefe_fefe;
pub const NOT_H: u64 = 0x7f7f_7f7f_7f7f_7f7f;
pub const NOT_AB: u64 = 0xfcfc_fcfc_fcfc_fcfc;
pub const NOT_GH: u64 = 0x3f3f_3f3f_3f3f_3f3f;
pub const FILE_A: u64 = 0x0101_0101_0101_0101;
pub const RANK_1: u64 = 0xff;
pub const DIAG: u64 = 0x8040_2010_0804_0201;
pub const ANTI: u64 = 0x0102_0408_1020_4080;

pub const PAWN: usize = 0;
pub const KNIGHT: usize = 1;
pub const BISHOP: usize = 2;
pub const ROOK: usize = 3;
pub const QUEEN: usize = 4;
pub const KING: usize = 5;
pub const WHITE: usize = 0;
pub const BLACK: usize = 1;

#[inline]
pub fn bit(sq: u8) -> u64 {
    1u64 << (sq & 63)
}
#[inline]
pub fn rank_of(sq: u8) -> i32 {
    ((sq & 63) >> 3) as i32
}
#[inline]
pub fn file_of(sq: u8) -> i32 {
    (sq & 7) as i32
}
#[inline]
pub fn on_board(r: i32, f: i32) -> bool {
    r >= 0 && r < 8 && f >= 0 && f < 8
}
#[inline]
pub fn sq_of(r: i32, f: i32) -> u8 {
    (r * 8 + f) as u8
}
#[inline]
pub fn has(bb: u64, sq: u8) -> bool {
    bb & bit(sq) != 0
}

// ---------------------------------------------------------------- geometry (definitional)

/// `t` lies strictly between `a` and `b` on a common rank, file or diagonal.
pub fn s_is_between(a: u8, t: u8, b: u8) -> bool {
    let (ar, af, br, bf, tr, tf) = (rank_of(a), file_of(a), rank_of(b), file_of(b), rank_of(t), file_of(t));
    if a == b {
        return false;
    }
    let dr = br - ar;
    let df = bf - af;
    let aligned = dr == 0 || df == 0 || dr == df || dr == -df;
    if !aligned {
        return false;
    }
    let sr = if dr > 0 { 1 } else if dr < 0 { -1 } else { 0 };
    let sf = if df > 0 { 1 } else if df < 0 { -1 } else { 0 };
    // t = a + k*(sr,sf) for some 0 < k < dist
    let dist = if dr != 0 { dr * sr } else { df * sf };
    let kr = tr - ar;
    let kf = tf - af;
    let k = if sr != 0 { kr * sr } else { kf * sf };
    k > 0 && k < dist && kr == k * sr && kf == k * sf
}

/// `t` lies on the full line through distinct aligned squares `a`, `b`.
pub fn s_is_on_line(a: u8, t: u8, b: u8) -> bool {
    let (ar, af, br, bf, tr, tf) = (rank_of(a), file_of(a), rank_of(b), file_of(b), rank_of(t), file_of(t));
    if a == b {
        return false;
    }
    let dr = br - ar;
    let df = bf - af;
    if dr == 0 {
        tr == ar
    } else if df == 0 {
        tf == af
    } else if dr == df {
        tr - ar == tf - af
    } else if dr == -df {
        tr - ar == -(tf - af)
    } else {
        false
    }
}

// ---------------------------------------------------------------- geometry (closed forms)
// Every closed form below is proved equal to its definitional counterpart by a
// code-independent spec self-check (harness group `spec_self`).

pub fn diag_mask(sq: u8) -> u64 {
    let d = rank_of(sq) - file_of(sq);
    if d >= 0 {
        DIAG << (8 * d as u32)
    } else {
        DIAG >> (8 * (-d) as u32)
    }
}
pub fn anti_mask(sq: u8) -> u64 {
    let d = rank_of(sq) + file_of(sq) - 7;
    if d >= 0 {
        ANTI << (8 * d as u32)
    } else {
        ANTI >> (8 * (-d) as u32)
    }
}
pub fn rank_mask(sq: u8) -> u64 {
    RANK_1 << (sq & 56)
}
pub fn file_mask(sq: u8) -> u64 {
    FILE_A << (sq & 7)
}
pub fn s_rook_rays(sq: u8) -> u64 {
    (rank_mask(sq) | file_mask(sq)) & !bit(sq)
}
pub fn s_bishop_rays(sq: u8) -> u64 {
    (diag_mask(sq) | anti_mask(sq)) & !bit(sq)
}
pub fn s_line(a: u8, b: u8) -> u64 {
    let bb = bit(b);
    if a == b {
        0
    } else if file_mask(a) & bb != 0 {
        file_mask(a)
    } else if rank_mask(a) & bb != 0 {
        rank_mask(a)
    } else if diag_mask(a) & bb != 0 {
        diag_mask(a)
    } else if anti_mask(a) & bb != 0 {
        anti_mask(a)
    } else {
        0
    }
}
pub fn s_between(a: u8, b: u8) -> u64 {
    let ba = bit(a);
    let bb = bit(b);
    s_line(a, b) & (ba.wrapping_sub(1) ^ bb.wrapping_sub(1)) & !ba & !bb
}
pub fn s_knight_att_set(b: u64) -> u64 {
    ((b << 17) & NOT_A)
        | ((b << 15) & NOT_H)
        | ((b << 10) & NOT_AB)
        | ((b << 6) & NOT_GH)
        | ((b >> 17) & NOT_H)
        | ((b >> 15) & NOT_A)
        | ((b >> 10) & NOT_GH)
        | ((b >> 6) & NOT_AB)
}
pub fn s_king_att_set(k: u64) -> u64 {
    let kh = ((k << 1) & NOT_A) | ((k >> 1) & NOT_H);
    let row = kh | k;
    kh | (row << 8) | (row >> 8)
}
/// squares attacked by pawns of colour `c` standing on `pawns`
pub fn s_pawn_att_set(pawns: u64, c: usize) -> u64 {
    if c == WHITE {
        ((pawns << 9) & NOT_A) | ((pawns << 7) & NOT_H)
    } else {
        ((pawns >> 9) & NOT_H) | ((pawns >> 7) & NOT_A)
    }
}
pub fn s_knight(sq: u8) -> u64 {
    s_knight_att_set(bit(sq))
}
pub fn s_king(sq: u8) -> u64 {
    s_king_att_set(bit(sq))
}
pub fn s_pawn_att(sq: u8, c: usize) -> u64 {
    s_pawn_att_set(bit(sq), c)
}
/// quiet pawn pushes from `sq` for colour `c` with occupancy `occ`:
/// one step if empty; two steps only from the starting rank through two empty squares.
pub fn s_pawn_quiets(sq: u8, c: usize, occ: u64) -> u64 {
    let b = bit(sq);
    if c == WHITE {
        let one = (b << 8) & !occ;
        let two = if rank_of(sq) == 1 { (one << 8) & !occ } else { 0 };
        one | two
    } else {
        let one = (b >> 8) & !occ;
        let two = if rank_of(sq) == 6 { (one >> 8) & !occ } else { 0 };
        one | two
    }
}
pub fn s_pawn_moves(sq: u8, c: usize, occ: u64) -> u64 {
    (s_pawn_att(sq, c) & occ) | s_pawn_quiets(sq, c, occ)
}

/// walk from `sq` in direction (dr,df) up to and including the first occupied square
pub fn s_ray_walk(sq: u8, occ: u64, dr: i32, df: i32) -> u64 {
    let mut r = rank_of(sq) + dr;
    let mut f = file_of(sq) + df;
    let mut out = 0u64;
    let mut steps = 0;
    while steps < 7 {
        if !on_board(r, f) {
            break;
        }
        let b = 1u64 << (r * 8 + f);
        out |= b;
        if occ & b != 0 {
            break;
        }
        r += dr;
        f += df;
        steps += 1;
    }
    out
}
pub fn s_rook_moves(sq: u8, occ: u64) -> u64 {
    s_ray_walk(sq, occ, 1, 0) | s_ray_walk(sq, occ, -1, 0) | s_ray_walk(sq, occ, 0, 1) | s_ray_walk(sq, occ, 0, -1)
}
pub fn s_bishop_moves(sq: u8, occ: u64) -> u64 {
    s_ray_walk(sq, occ, 1, 1) | s_ray_walk(sq, occ, 1, -1) | s_ray_walk(sq, occ, -1, 1) | s_ray_walk(sq, occ, -1, -1)
}

// loop-free slider attacks (Kogge-Stone style occluded fills), proved equal to the ray walks
// by a spec self-check; used where a harness must stay loop-free.
fn fill_n(g: u64, e: u64) -> u64 {
    let mut g = g;
    let mut e = e;
    g |= e & (g << 8);
    e &= e << 8;
    g |= e & (g << 16);
    e &= e << 16;
    g |= e & (g << 32);
    g
}
fn fill_s(g: u64, e: u64) -> u64 {
    let mut g = g;
    let mut e = e;
    g |= e & (g >> 8);
    e &= e >> 8;
    g |= e & (g >> 16);
    e &= e >> 16;
    g |= e & (g >> 32);
    g
}
fn fill_e(g: u64, e: u64) -> u64 {
    let mut g = g;
    let mut e = e & NOT_A;
    g |= e & (g << 1);
    e &= e << 1;
    g |= e & (g << 2);
    e &= e << 2;
    g |= e & (g << 4);
    g
}
fn fill_w(g: u64, e: u64) -> u64 {
    let mut g = g;
    let mut e = e & NOT_H;
    g |= e & (g >> 1);
    e &= e >> 1;
    g |= e & (g >> 2);
    e &= e >> 2;
    g |= e & (g >> 4);
    g
}
fn fill_ne(g: u64, e: u64) -> u64 {
    let mut g = g;
    let mut e = e & NOT_A;
    g |= e & (g << 9);
    e &= e << 9;
    g |= e & (g << 18);
    e &= e << 18;
    g |= e & (g << 36);
    g
}
fn fill_nw(g: u64, e: u64) -> u64 {
    let mut g = g;
    let mut e = e & NOT_H;
    g |= e & (g << 7);
    e &= e << 7;
    g |= e & (g << 14);
    e &= e << 14;
    g |= e & (g << 28);
    g
}
fn fill_se(g: u64, e: u64) -> u64 {
    let mut g = g;
    let mut e = e & NOT_A;
    g |= e & (g >> 7);
    e &= e >> 7;
    g |= e & (g >> 14);
    e &= e >> 14;
    g |= e & (g >> 28);
    g
}
fn fill_sw(g: u64, e: u64) -> u64 {
    let mut g = g;
    let mut e = e & NOT_H;
    g |= e & (g >> 9);
    e &= e >> 9;
    g |= e & (g >> 18);
    e &= e >> 18;
    g |= e & (g >> 36);
    g
}
/// squares attacked by orthogonal sliders standing on `g` given occupancy `occ`
pub fn s_orth_att_set(g: u64, occ: u64) -> u64 {
    let e = !occ;
    (fill_n(g, e) << 8) | (fill_s(g, e) >> 8) | ((fill_e(g, e) << 1) & NOT_A) | ((fill_w(g, e) >> 1) & NOT_H)
}
/// squares attacked by diagonal sliders standing on `g` given occupancy `occ`
pub fn s_diag_att_set(g: u64, occ: u64) -> u64 {
    let e = !occ;
    ((fill_ne(g, e) << 9) & NOT_A)
        | ((fill_nw(g, e) << 7) & NOT_H)
        | ((fill_se(g, e) >> 7) & NOT_A)
        | ((fill_sw(g, e) >> 9) & NOT_H)
}
pub fn s_rook_moves_lf(sq: u8, occ: u64) -> u64 {
    s_orth_att_set(bit(sq), occ)
}
pub fn s_bishop_moves_lf(sq: u8, occ: u64) -> u64 {
    s_diag_att_set(bit(sq), occ)
}

/// the occupancy bits that can influence a rook's / bishop's reach from `sq`
pub fn s_relevant_rook(sq: u8) -> u64 {
    let r = rank_mask(sq) & !bit(sq) & NOT_A & NOT_H;
    let f = file_mask(sq) & !bit(sq) & !RANK_1 & !(RANK_1 << 56);
    r | f
}
pub fn s_relevant_bishop(sq: u8) -> u64 {
    s_bishop_rays(sq) & NOT_A & NOT_H & !RANK_1 & !(RANK_1 << 56)
}

pub fn s_edges() -> u64 {
    !(NOT_A & NOT_H & !RANK_1 & !(RANK_1 << 56))
}
pub fn s_adjacent_files(f: u8) -> u64 {
    let m = FILE_A << (f & 7);
    ((m << 1) & NOT_A) | ((m >> 1) & NOT_H)
}

// ---------------------------------------------------------------- positions

#[derive(Clone, Copy, PartialEq, Eq, Debug)]
pub struct Pos {
    pub pieces: [u64; 6],
    pub colors: [u64; 2],
    pub stm: usize,
    /// castle rights per colour: bit 0 = king side, bit 1 = queen side
    pub rights: [u8; 2],
    /// the library's convention: the square of the pawn that just made a double step
    pub ep: Option<u8>,
}

impl Pos {
    pub fn occ(&self) -> u64 {
        self.colors[0] | self.colors[1]
    }
    pub fn piece_at(&self, sq: u8) -> Option<usize> {
        let b = bit(sq);
        let mut p = 0;
        while p < 6 {
            if self.pieces[p] & b != 0 {
                return Some(p);
            }
            p += 1;
        }
        None
    }
    pub fn color_at(&self, sq: u8) -> Option<usize> {
        let b = bit(sq);
        if self.colors[0] & b != 0 {
            Some(0)
        } else if self.colors[1] & b != 0 {
            Some(1)
        } else {
            None
        }
    }
    pub fn king_sq(&self, c: usize) -> u8 {
        (self.pieces[KING] & self.colors[c]).trailing_zeros() as u8 & 63
    }
}

/// structural consistency of the bitboards (no chess rule yet)
pub fn s_consistent(p: &Pos) -> bool {
    let a = p.pieces;
    let disjoint = a[0] & a[1] == 0
        && (a[0] | a[1]) & a[2] == 0
        && (a[0] | a[1] | a[2]) & a[3] == 0
        && (a[0] | a[1] | a[2] | a[3]) & a[4] == 0
        && (a[0] | a[1] | a[2] | a[3] | a[4]) & a[5] == 0;
    let all = a[0] | a[1] | a[2] | a[3] | a[4] | a[5];
    disjoint && p.colors[0] & p.colors[1] == 0 && (p.colors[0] | p.colors[1]) == all && p.stm < 2 && p.rights[0] < 4 && p.rights[1] < 4
}
pub fn s_one_king_each(p: &Pos) -> bool {
    (p.pieces[KING] & p.colors[0]).count_ones() == 1 && (p.pieces[KING] & p.colors[1]).count_ones() == 1
}

/// Is `target` attacked by a man of colour `by`, with occupancy `occ` deciding what blocks sliders?
/// A man standing on `target` itself does not attack it.  Flood fills start FROM THE ATTACKERS.
pub fn s_attacked(p: &Pos, target: u8, by: usize, occ: u64) -> bool {
    let t = bit(target);
    let e = p.colors[by] & !t;
    if s_pawn_att_set(p.pieces[PAWN] & e, by) & t != 0 {
        return true;
    }
    if s_knight_att_set(p.pieces[KNIGHT] & e) & t != 0 {
        return true;
    }
    if s_king_att_set(p.pieces[KING] & e) & t != 0 {
        return true;
    }
    let diag = (p.pieces[BISHOP] | p.pieces[QUEEN]) & e;
    let orth = (p.pieces[ROOK] | p.pieces[QUEEN]) & e;
    (s_orth_att_set(orth, occ) | s_diag_att_set(diag, occ)) & t != 0
}

/// the set of men of colour `by` that attack `target` (occupancy `occ`), looked at from the target
/// with plain ray walks (used for `checkers`)
pub fn s_attackers(p: &Pos, target: u8, by: usize, occ: u64) -> u64 {
    let e = p.colors[by];
    let mut a = 0u64;
    a |= s_pawn_att(target, 1 - by) & p.pieces[PAWN] & e;
    a |= s_knight(target) & p.pieces[KNIGHT] & e;
    a |= s_king(target) & p.pieces[KING] & e;
    a |= s_rook_moves(target, occ) & (p.pieces[ROOK] | p.pieces[QUEEN]) & e;
    a |= s_bishop_moves(target, occ) & (p.pieces[BISHOP] | p.pieces[QUEEN]) & e;
    a
}

/// first and second occupied square seen from `sq` in direction (dr,df)
pub fn s_walk2(sq: u8, occ: u64, dr: i32, df: i32) -> (u64, u64) {
    let mut r = rank_of(sq) + dr;
    let mut f = file_of(sq) + df;
    let mut first = 0u64;
    let mut steps = 0;
    while steps < 7 {
        if !on_board(r, f) {
            break;
        }
        let b = 1u64 << (r * 8 + f);
        if occ & b != 0 {
            if first == 0 {
                first = b;
            } else {
                return (first, b);
            }
        }
        r += dr;
        f += df;
        steps += 1;
    }
    (first, 0)
}

/// (checkers, raw pinned) of the side to move, by eight walks from its king.
/// `raw pinned` is what the library stores: every lone man (of either colour) standing between
/// the king and an aligned enemy slider of the right kind.  The observable of C03 is
/// `pinned & own men`.
pub fn s_check_pin(p: &Pos) -> (u64, u64) {
    let me = p.stm;
    let them = 1 - me;
    let k = p.king_sq(me);
    let occ = p.occ();
    let e = p.colors[them];
    let diag = (p.pieces[BISHOP] | p.pieces[QUEEN]) & e;
    let orth = (p.pieces[ROOK] | p.pieces[QUEEN]) & e;
    let mut checkers = 0u64;
    let mut pinned = 0u64;
    let dirs: [(i32, i32, bool); 8] =
        [(1, 0, false), (-1, 0, false), (0, 1, false), (0, -1, false), (1, 1, true), (1, -1, true), (-1, 1, true), (-1, -1, true)];
    let mut i = 0;
    while i < 8 {
        let (dr, df, is_diag) = dirs[i];
        let sl = if is_diag { diag } else { orth };
        let (first, second) = s_walk2(k, occ, dr, df);
        if first & sl != 0 {
            checkers |= first;
        }
        if first != 0 && second & sl != 0 {
            pinned |= first;
        }
        i += 1;
    }
    checkers |= s_knight(k) & p.pieces[KNIGHT] & e;
    checkers |= s_pawn_att(k, me) & p.pieces[PAWN] & e;
    (checkers, pinned)
}

pub fn s_in_check(p: &Pos, c: usize) -> bool {
    s_attacked(p, p.king_sq(c), 1 - c, p.occ())
}

// ---------------------------------------------------------------- castling data (Art. 3.8)
pub fn s_back_rank(c: usize) -> u8 {
    if c == WHITE {
        0
    } else {
        56
    }
}
/// rights lost by colour `c` when a man leaves or a capture lands on `sq`
pub fn s_rights_of_square(c: usize, sq: u8) -> u8 {
    let base = s_back_rank(c);
    if sq == base + 4 {
        3
    } else if sq == base + 7 {
        1
    } else if sq == base {
        2
    } else {
        0
    }
}

// ---------------------------------------------------------------- moves

#[derive(Clone, Copy, PartialEq, Eq, Debug)]
pub struct Mv {
    pub src: u8,
    pub dst: u8,
    /// None, or Some(piece index) in {KNIGHT,BISHOP,ROOK,QUEEN}
    pub promo: Option<usize>,
}

pub fn s_is_castle(p: &Pos, m: &Mv) -> bool {
    p.piece_at(m.src) == Some(KING) && (file_of(m.src) - file_of(m.dst) == 2 || file_of(m.dst) - file_of(m.src) == 2) && rank_of(m.src) == rank_of(m.dst)
}
/// en-passant capture: a pawn moves diagonally onto an empty square
pub fn s_is_ep_capture(p: &Pos, m: &Mv) -> bool {
    p.piece_at(m.src) == Some(PAWN) && file_of(m.src) != file_of(m.dst) && p.piece_at(m.dst).is_none()
}

/// Pseudo-legality by the movement rules of Art. 3 (own king safety not yet considered).
pub fn s_pseudo(p: &Pos, m: &Mv) -> bool {
    s_pseudo_geom(p, m) && (!s_is_castle(p, m) || s_castle_path_safe(p, m))
}

/// castling (Art. 3.8.2.2): the king is not in check, does not pass through and does not land on an attacked square
pub fn s_castle_path_safe(p: &Pos, m: &Mv) -> bool {
    let them = 1 - p.stm;
    let occ = p.occ();
    let mid = if m.dst > m.src { m.src + 1 } else { m.src - 1 };
    !s_attacked(p, m.src, them, occ) && !s_attacked(p, mid, them, occ) && !s_attacked(p, m.dst, them, occ)
}

/// the movement rules without the attack clauses of castling
pub fn s_pseudo_geom(p: &Pos, m: &Mv) -> bool {
    let me = p.stm;
    let them = 1 - me;
    let occ = p.occ();
    if m.src == m.dst || m.src > 63 || m.dst > 63 {
        return false;
    }
    if p.color_at(m.src) != Some(me) || p.color_at(m.dst) == Some(me) {
        return false;
    }
    let piece = match p.piece_at(m.src) {
        Some(x) => x,
        None => return false,
    };
    let d = bit(m.dst);
    // promotion field: exactly for pawns reaching the last rank, one of N B R Q
    let last_rank = if me == WHITE { 7 } else { 0 };
    let promotes = piece == PAWN && rank_of(m.dst) == last_rank;
    match m.promo {
        None => {
            if promotes {
                return false;
            }
        }
        Some(pp) => {
            if !promotes || !(pp == KNIGHT || pp == BISHOP || pp == ROOK || pp == QUEEN) {
                return false;
            }
        }
    }
    if piece == PAWN {
        if s_pawn_quiets(m.src, me, occ) & d != 0 {
            return true;
        }
        if s_pawn_att(m.src, me) & d != 0 {
            if p.colors[them] & d != 0 {
                return true;
            }
            // en passant: the pawn that just made a double step stands beside me, I land behind it
            if let Some(ep) = p.ep {
                let behind = if me == WHITE { ep.wrapping_add(8) } else { ep.wrapping_sub(8) };
                return behind == m.dst
                    && rank_of(ep) == rank_of(m.src)
                    && p.pieces[PAWN] & p.colors[them] & bit(ep) != 0
                    && occ & d == 0;
            }
        }
        false
    } else if piece == KNIGHT {
        s_knight(m.src) & d != 0
    } else if piece == BISHOP {
        s_bishop_moves(m.src, occ) & d != 0
    } else if piece == ROOK {
        s_rook_moves(m.src, occ) & d != 0
    } else if piece == QUEEN {
        (s_rook_moves(m.src, occ) | s_bishop_moves(m.src, occ)) & d != 0
    } else {
        if s_king(m.src) & d != 0 {
            return true;
        }
        // castling (Art. 3.8.2): right held, king and rook on home squares, squares between empty
        let base = s_back_rank(me);
        if m.src != base + 4 {
            return false;
        }
        let rooks = p.pieces[ROOK] & p.colors[me];
        if m.dst == base + 6 {
            p.rights[me] & 1 != 0 && has(rooks, base + 7) && occ & (bit(base + 5) | bit(base + 6)) == 0
        } else if m.dst == base + 2 {
            p.rights[me] & 2 != 0 && has(rooks, base) && occ & (bit(base + 1) | bit(base + 2) | bit(base + 3)) == 0
        } else {
            false
        }
    }
}

/// The successor position prescribed by the rules (Art. 3.7 e.p. / promotion, 3.8 castling).
/// Requires `s_pseudo(p, m)`.  The en-passant component follows the library's documented
/// convention (recorded only when an enemy pawn stands beside the pushed pawn); C02 states the
/// admissible band separately.
pub fn s_apply(p: &Pos, m: &Mv) -> Pos {
    let me = p.stm;
    let them = 1 - me;
    let mut q = *p;
    let s = bit(m.src);
    let d = bit(m.dst);
    let piece = match p.piece_at(m.src) {
        Some(x) => x,
        None => return q,
    };
    // capture on the destination
    if let Some(c) = p.piece_at(m.dst) {
        q.pieces[c] &= !d;
        q.colors[them] &= !d;
    }
    // en-passant capture removes the pawn that made the double step
    if s_is_ep_capture(p, m) {
        if let Some(ep) = p.ep {
            q.pieces[PAWN] &= !bit(ep);
            q.colors[them] &= !bit(ep);
        }
    }
    q.pieces[piece] &= !s;
    q.colors[me] &= !s;
    let placed = match m.promo {
        Some(pp) => pp,
        None => piece,
    };
    q.pieces[placed] |= d;
    q.colors[me] |= d;
    if s_is_castle(p, m) {
        let base = s_back_rank(me);
        let (rs, rd) = if file_of(m.dst) == 6 { (base + 7, base + 5) } else { (base, base + 3) };
        q.pieces[ROOK] = (q.pieces[ROOK] & !bit(rs)) | bit(rd);
        q.colors[me] = (q.colors[me] & !bit(rs)) | bit(rd);
    }
    q.rights[me] = p.rights[me] & !s_rights_of_square(me, m.src);
    q.rights[them] = p.rights[them] & !s_rights_of_square(them, m.dst);
    q.ep = None;
    if piece == PAWN && (rank_of(m.src) - rank_of(m.dst) == 2 || rank_of(m.dst) - rank_of(m.src) == 2) {
        // recorded when an enemy pawn stands beside the pushed pawn
        let beside = (((d << 1) & NOT_A) | ((d >> 1) & NOT_H)) & p.pieces[PAWN] & p.colors[them];
        if beside != 0 {
            q.ep = Some(m.dst);
        }
    }
    q.stm = them;
    q
}

/// Legal = pseudo-legal and the mover's king is not attacked afterwards (Art. 3.9).
pub fn s_legal(p: &Pos, m: &Mv) -> bool {
    if !s_pseudo(p, m) {
        return false;
    }
    let q = s_apply(p, m);
    !s_attacked(&q, q.king_sq(p.stm), q.stm, q.occ())
}

/// The quantifier of C01/C05: a valid chess position.
pub fn s_valid(p: &Pos) -> bool {
    s_valid_core(p) && s_counts_ok(p)
}

/// at most 16 men and 8 pawns per side
pub fn s_counts_ok(p: &Pos) -> bool {
    let pawns = p.pieces[PAWN];
    p.colors[0].count_ones() <= 16
        && p.colors[1].count_ones() <= 16
        && (pawns & p.colors[0]).count_ones() <= 8
        && (pawns & p.colors[1]).count_ones() <= 8
}

/// validity without the cardinality clauses: consistent boards, one king per side, no pawn on rank 1/8,
/// castling rights backed, the side not to move not in check, en-passant state consistent
pub fn s_valid_core(p: &Pos) -> bool {
    if !s_consistent(p) || !s_one_king_each(p) {
        return false;
    }
    let pawns = p.pieces[PAWN];
    if pawns & (RANK_1 | (RANK_1 << 56)) != 0 {
        return false;
    }
    let mut c = 0;
    while c < 2 {
        let base = s_back_rank(c);
        let rooks = p.pieces[ROOK] & p.colors[c];
        if p.rights[c] != 0 && p.king_sq(c) != base + 4 {
            return false;
        }
        if p.rights[c] & 1 != 0 && !has(rooks, base + 7) {
            return false;
        }
        if p.rights[c] & 2 != 0 && !has(rooks, base) {
            return false;
        }
        c += 1;
    }
    // the side not to move is not in check
    if s_in_check(p, 1 - p.stm) {
        return false;
    }
    s_ep_consistent(p) && s_ep_history_ok(p)
}

/// "en-passant state only directly after a double pawn push" from a valid position: with the pushed pawn put
/// back on its starting square, the king of the side now to move was not attacked (it was the pusher's turn).
pub fn s_ep_history_ok(p: &Pos) -> bool {
    match p.ep {
        None => true,
        Some(ep) => {
            if ep > 63 || (ep < 16 && p.stm == BLACK) || (ep >= 48 && p.stm == WHITE) {
                return false;
            }
            let them = 1 - p.stm;
            let start = if them == WHITE { ep.wrapping_sub(16) } else { ep.wrapping_add(16) };
            let mut pre = *p;
            pre.pieces[PAWN] = (p.pieces[PAWN] & !bit(ep)) | bit(start);
            pre.colors[them] = (p.colors[them] & !bit(ep)) | bit(start);
            !s_attacked(&pre, pre.king_sq(p.stm), them, pre.occ())
        }
    }
}

/// en-passant state only directly after a double pawn push: the recorded pawn is an enemy pawn
/// on its fourth rank, the two squares behind it are empty, and (library convention) a pawn of
/// the side to move stands beside it.
pub fn s_ep_consistent(p: &Pos) -> bool {
    match p.ep {
        None => true,
        Some(ep) => {
            let them = 1 - p.stm;
            let want_rank = if them == WHITE { 3 } else { 4 };
            if ep > 63 || rank_of(ep) != want_rank || p.pieces[PAWN] & p.colors[them] & bit(ep) == 0 {
                return false;
            }
            let b1 = if them == WHITE { ep - 8 } else { ep + 8 };
            let b2 = if them == WHITE { ep - 16 } else { ep + 16 };
            if p.occ() & (bit(b1) | bit(b2)) != 0 {
                return false;
            }
            let d = bit(ep);
            (((d << 1) & NOT_A) | ((d >> 1) & NOT_H)) & p.pieces[PAWN] & p.colors[p.stm] != 0
        }
    }
}

pub fn s_mirror_bb(b: u64) -> u64 {
    b.swap_bytes()
}
pub fn s_mirror_sq(sq: u8) -> u8 {
    sq ^ 56
}
pub fn s_mirror(p: &Pos) -> Pos {
    let mut q = *p;
    let mut i = 0;
    while i < 6 {
        q.pieces[i] = s_mirror_bb(p.pieces[i]);
        i += 1;
    }
    q.colors[0] = s_mirror_bb(p.colors[1]);
    q.colors[1] = s_mirror_bb(p.colors[0]);
    q.stm = 1 - p.stm;
    q.rights = [p.rights[1], p.rights[0]];
    q.ep = match p.ep {
        Some(e) => Some(s_mirror_sq(e)),
        None => None,
    };
    q
}

// ---------------------------------------------------------------- validation (C07 / C05)

/// What `Board::is_sane` must accept — written from the statement of C07/C05, not from the code:
/// structurally consistent bitboards, exactly one king per side, the kings not adjacent, the side not to move
/// not in check, every castling right backed by king and rook on their home squares, a recorded en-passant
/// square holding a pawn of the side that just moved, and no more men per side than a chess set has
/// (which is also what keeps the 18-slot move list sufficient: one slot per man plus two en-passant captures).
pub fn s_sane(p: &Pos, combined: u64) -> bool {
    if !s_consistent(p) || combined != p.occ() || !s_one_king_each(p) {
        return false;
    }
    if p.colors[0].count_ones() > 16 || p.colors[1].count_ones() > 16 {
        return false;
    }
    if let Some(ep) = p.ep {
        if ep > 63 || p.pieces[PAWN] & p.colors[1 - p.stm] & bit(ep) == 0 {
            return false;
        }
    }
    if s_in_check(p, 1 - p.stm) {
        return false;
    }
    let mut c = 0;
    while c < 2 {
        let base = s_back_rank(c);
        let rooks = p.pieces[ROOK] & p.colors[c];
        if p.rights[c] != 0 && p.king_sq(c) != base + 4 {
            return false;
        }
        if p.rights[c] & 1 != 0 && !has(rooks, base + 7) {
            return false;
        }
        if p.rights[c] & 2 != 0 && !has(rooks, base) {
            return false;
        }
        c += 1;
    }
    true
}


// ---------------------------------------------------------------- pin-aware legality (the shortcut the library takes)

/// destination set of the man on `src` by the movement rules alone (captures of own men excluded), loop-free
pub fn s_pseudo_set(p: &Pos, src: u8) -> u64 {
    let me = p.stm;
    let occ = p.occ();
    let own = p.colors[me];
    let r = match p.piece_at(src) {
        Some(PAWN) => (s_pawn_att(src, me) & p.colors[1 - me]) | s_pawn_quiets(src, me, occ),
        Some(KNIGHT) => s_knight(src),
        Some(BISHOP) => s_bishop_moves_lf(src, occ),
        Some(ROOK) => s_rook_moves_lf(src, occ),
        Some(QUEEN) => s_bishop_moves_lf(src, occ) | s_rook_moves_lf(src, occ),
        Some(KING) => s_king(src),
        _ => 0,
    };
    r & !own
}

/// legal destinations of a non-king man, computed the way the rules can be short-cut with check and pin
/// information: double check -> none; single check -> capture the checker or interpose; pinned -> stay on the
/// line through the king (and not at all when in check).  En-passant captures are NOT included (see s_ep_legal).
pub fn s_legal2_set(p: &Pos, src: u8, checkers: u64, pinned: u64) -> u64 {
    let me = p.stm;
    let k = p.king_sq(me);
    let n = checkers.count_ones();
    if n >= 2 || p.color_at(src) != Some(me) || p.piece_at(src) == Some(KING) {
        return 0;
    }
    let ps = s_pseudo_set(p, src);
    if pinned & bit(src) != 0 {
        if n == 1 {
            0
        } else {
            ps & s_line(src, k)
        }
    } else if n == 1 {
        let c = checkers.trailing_zeros() as u8 & 63;
        ps & (s_between(c, k) | checkers)
    } else {
        ps
    }
}

/// legality of the en-passant capture src -> dst by definition: geometry + own king not attacked afterwards
pub fn s_ep_legal(p: &Pos, src: u8, dst: u8) -> bool {
    let m = Mv { src, dst, promo: None };
    s_is_ep_capture(p, &m) && s_legal(p, &m)
}

/// is the single king step to `d` legal?  (destination not own, and not attacked once the king is lifted)
pub fn s_king_step_legal(p: &Pos, d: u8) -> bool {
    let me = p.stm;
    let k = p.king_sq(me);
    s_king(k) & !p.colors[me] & bit(d) != 0 && !s_attacked(p, d, 1 - me, (p.occ() & !bit(k)) | bit(d))
}

/// castling to the king side (true) / queen side (false) legal per Art. 3.8.2
pub fn s_castle_legal(p: &Pos, kingside: bool) -> bool {
    let me = p.stm;
    let base = s_back_rank(me);
    let dst = if kingside { base + 6 } else { base + 2 };
    let m = Mv { src: base + 4, dst, promo: None };
    p.king_sq(me) == base + 4 && s_pseudo(p, &m)
}

// ---------------------------------------------------------------- symmetries (C17)
pub fn s_mirror_mv(m: &Mv) -> Mv {
    Mv { src: m.src ^ 56, dst: m.dst ^ 56, promo: m.promo }
}
pub fn s_flip_bb(b: u64) -> u64 {
    b.reverse_bits().swap_bytes()
}
/// left-right flip (file a <-> h); only meaningful without castling rights
pub fn s_flip(p: &Pos) -> Pos {
    let mut q = *p;
    let mut i = 0;
    while i < 6 {
        q.pieces[i] = s_flip_bb(p.pieces[i]);
        i += 1;
    }
    q.colors[0] = s_flip_bb(p.colors[0]);
    q.colors[1] = s_flip_bb(p.colors[1]);
    q.ep = match p.ep {
        Some(e) => Some(e ^ 7),
        None => None,
    };
    q
}
pub fn s_flip_mv(m: &Mv) -> Mv {
    Mv { src: m.src ^ 7, dst: m.dst ^ 7, promo: m.promo }
}
pub fn s_pos_eq(a: &Pos, b: &Pos) -> bool {
    a.pieces[0] == b.pieces[0] && a.pieces[1] == b.pieces[1] && a.pieces[2] == b.pieces[2] && a.pieces[3] == b.pieces[3]
        && a.pieces[4] == b.pieces[4] && a.pieces[5] == b.pieces[5] && a.colors[0] == b.colors[0] && a.colors[1] == b.colors[1]
        && a.stm == b.stm && a.rights[0] == b.rights[0] && a.rights[1] == b.rights[1] && a.ep == b.ep
}

/// (checkers, raw pinned) by the POINTWISE rule the library's scan implements: every enemy slider on a ray of the right
/// kind from the king contributes itself as a checker when nothing stands between, or the single man between as pinned.
/// Proved equal to the eight-walk formulation `s_check_pin` by the code-independent lemma S1.6.
pub fn s_check_pin_pointwise(p: &Pos) -> (u64, u64) {
    let me = p.stm;
    let them = 1 - me;
    let k = p.king_sq(me);
    let occ = p.occ();
    let e = p.colors[them];
    let cand = e & ((s_bishop_rays(k) & (p.pieces[BISHOP] | p.pieces[QUEEN])) | (s_rook_rays(k) & (p.pieces[ROOK] | p.pieces[QUEEN])));
    let mut ch = 0u64;
    let mut pin = 0u64;
    let mut sq = 0u8;
    while sq < 64 {
        if cand & bit(sq) != 0 {
            let bt = s_between(sq, k) & occ;
            if bt == 0 {
                ch ^= bit(sq);
            } else if bt.count_ones() == 1 {
                pin ^= bt;
            }
        }
        sq += 1;
    }
    ch ^= s_knight(k) & e & p.pieces[KNIGHT];
    ch ^= s_pawn_att(k, me) & e & p.pieces[PAWN];
    (ch, pin)
}
