// k_bitboard.rs — contracts on src/bitboard.rs (C20).  Child module of `bitboard`.
use super::*;
use crate::vhelp::*;
use crate::vspec as sp;

// @ob id=O20.1a props=C20 tier=quick kind=proof fn="BitAnd for BitBoard (4 impls)" desc="(a & b).0 == a.0 & b.0 in all owned/borrowed combinations, all 2^128 operand pairs"
#[kani::proof]
fn c20_bitand() {
    let (a, b): (u64, u64) = (kani::any(), kani::any());
    let (x, y) = (BitBoard(a), BitBoard(b));
    assert!((x & y).0 == a & b);
    assert!((&x & &y).0 == a & b);
    assert!((x & &y).0 == a & b);
    assert!((&x & y).0 == a & b);
}

// @ob id=O20.1b props=C20 tier=quick kind=proof fn="BitOr for BitBoard (4 impls)" desc="(a | b).0 == a.0 | b.0 in all owned/borrowed combinations"
#[kani::proof]
fn c20_bitor() {
    let (a, b): (u64, u64) = (kani::any(), kani::any());
    let (x, y) = (BitBoard(a), BitBoard(b));
    assert!((x | y).0 == a | b);
    assert!((&x | &y).0 == a | b);
    assert!((x | &y).0 == a | b);
    assert!((&x | y).0 == a | b);
}

// @ob id=O20.1c props=C20 tier=quick kind=proof fn="BitXor for BitBoard (4 impls)" desc="(a ^ b).0 == a.0 ^ b.0 in all owned/borrowed combinations"
#[kani::proof]
fn c20_bitxor() {
    let (a, b): (u64, u64) = (kani::any(), kani::any());
    let (x, y) = (BitBoard(a), BitBoard(b));
    assert!((x ^ y).0 == a ^ b);
    assert!((&x ^ &y).0 == a ^ b);
    assert!((x ^ &y).0 == a ^ b);
    assert!((&x ^ y).0 == a ^ b);
}

// @ob id=O20.1d props=C20 tier=quick kind=proof fn="Not for BitBoard (2 impls)" desc="(!a).0 == !a.0: complement with respect to the 64 squares"
#[kani::proof]
fn c20_not() {
    let a: u64 = kani::any();
    let x = BitBoard(a);
    assert!((!x).0 == !a);
    assert!((!&x).0 == !a);
}

// @ob id=O20.1e props=C20 tier=quick kind=proof fn="Mul for BitBoard (4 impls)" desc="(a * b).0 == a.0.wrapping_mul(b.0), never panics"
#[kani::proof]
fn c20_mul() {
    let (a, b): (u64, u64) = (kani::any(), kani::any());
    let (x, y) = (BitBoard(a), BitBoard(b));
    let w = a.wrapping_mul(b);
    assert!((x * y).0 == w);
    assert!((&x * &y).0 == w);
    assert!((x * &y).0 == w);
    assert!((&x * y).0 == w);
}

// @ob id=O20.2 props=C20 tier=quick kind=proof fn="BitAndAssign,BitOrAssign,BitXorAssign for BitBoard (6 impls)" desc="assigning forms leave exactly a op b in the left operand"
#[kani::proof]
fn c20_assign_ops() {
    let (a, b): (u64, u64) = (kani::any(), kani::any());
    let y = BitBoard(b);
    let mut x = BitBoard(a);
    x &= y;
    assert!(x.0 == a & b);
    let mut x = BitBoard(a);
    x &= &y;
    assert!(x.0 == a & b);
    let mut x = BitBoard(a);
    x |= y;
    assert!(x.0 == a | b);
    let mut x = BitBoard(a);
    x |= &y;
    assert!(x.0 == a | b);
    let mut x = BitBoard(a);
    x ^= y;
    assert!(x.0 == a ^ b);
    let mut x = BitBoard(a);
    x ^= &y;
    assert!(x.0 == a ^ b);
}

// @ob id=O20.3 props=C20 tier=quick kind=proof fn="BitBoard::from_square,BitBoard::to_square,BitBoard::set,BitBoard::new,BitBoard::from_maybe_square" desc="from_square(s) has exactly bit s; to_square(from_square(s)) == s for all 64 squares; to_square of a non-empty set is its lowest member; set(r,f) is the single square r*8+f"
#[kani::proof]
fn c20_square_roundtrip() {
    let s = any_sq_u8();
    let sq = Square::new(s);
    let bb = BitBoard::from_square(sq);
    assert!(bb.0 == 1u64 << s);
    assert!(bb.to_square() == sq);
    assert!(bb.to_square().to_int() == s);
    assert!(BitBoard::from_maybe_square(Some(sq)) == Some(bb));
    assert!(BitBoard::from_maybe_square(None).is_none());
    let a: u64 = kani::any();
    assert!(BitBoard::new(a).0 == a);
    kani::assume(a != 0);
    let low = BitBoard(a).to_square().to_int();
    assert!(low < 64);
    assert!(a & (1u64 << low) != 0);
    assert!(a & ((1u64 << low) - 1) == 0);
    let (r, f) = (any_rank(), any_file());
    assert!(BitBoard::set(r, f).0 == 1u64 << (r.to_index() * 8 + f.to_index()));
}

// @ob id=O20.4 props=C20 also=C14 tier=quick kind=proof fn="BitBoard::popcnt" desc="popcnt == number of set bits, for all 2^64 values (64-step definitional count)"
#[kani::proof]
fn c20_popcnt() {
    let a: u64 = kani::any();
    let mut n = 0u32;
    let mut i = 0;
    while i < 64 {
        if a & (1u64 << i) != 0 {
            n += 1;
        }
        i += 1;
    }
    assert!(BitBoard(a).popcnt() == n);
}

// @ob id=O20.5 props=C20 also=C01,C14 tier=quick kind=proof fn="Iterator::next for BitBoard" desc="next() on the empty set returns None and leaves it empty; otherwise returns the lowest member and removes exactly that member"
#[kani::proof]
fn c20_next_contract() {
    let a: u64 = kani::any();
    let mut it = BitBoard(a);
    let r = it.next();
    if a == 0 {
        assert!(r.is_none());
        assert!(it.0 == 0);
    } else {
        let s = r.unwrap().to_int();
        assert!(s < 64);
        assert!(a & (1u64 << s) != 0);
        assert!(a & ((1u64 << s) - 1) == 0);
        assert!(it.0 == a & !(1u64 << s));
    }
}

// @ob id=O20.6 props=C20 tier=quick kind=proof fn="Iterator::next for BitBoard" desc="inductive step of iteration over ANY set a: Inv(seen,rest,last,n) := seen|rest==a, seen&rest==0, seen below/at last, rest above last, n==|seen|. Inv holds initially, one next() preserves it with a strictly larger yielded square and |rest| decreasing, and at None seen==a and n==popcnt(a): every member once, ascending, count==popcnt"
#[kani::proof]
fn c20_iteration_step() {
    let a: u64 = kani::any();
    // base case
    {
        let (seen, rest, last, n) = (0u64, a, -1i32, 0u32);
        assert!(seen | rest == a && seen & rest == 0 && n == seen.count_ones());
        let _ = last;
    }
    // arbitrary state satisfying Inv
    let seen: u64 = kani::any();
    let rest: u64 = kani::any();
    let last: i32 = kani::any();
    kani::assume(last >= -1 && last < 64);
    let below: u64 = if last < 0 { 0 } else if last == 63 { !0 } else { (1u64 << (last + 1)) - 1 };
    kani::assume(seen | rest == a && seen & rest == 0);
    kani::assume(seen & !below == 0 && rest & below == 0);
    let n = seen.count_ones();
    let mut it = BitBoard(rest);
    match it.next() {
        None => {
            assert!(seen == a);
            assert!(n == BitBoard(a).popcnt());
        }
        Some(sq) => {
            let s = sq.to_int() as i32;
            assert!(s > last && s < 64);
            let seen2 = seen | (1u64 << s);
            let below2: u64 = if s == 63 { !0 } else { (1u64 << (s + 1)) - 1 };
            assert!(seen2 | it.0 == a && seen2 & it.0 == 0);
            assert!(seen2 & !below2 == 0 && it.0 & below2 == 0);
            assert!(seen2.count_ones() == n + 1);
            assert!(it.0.count_ones() + 1 == rest.count_ones());
        }
    }
    kani::cover!(rest != 0 && seen != 0);
}

// @ob id=O20.6w props=C20 tier=thorough kind=proof weight=medium fn="Iterator::next for BitBoard,Iterator::count" desc="whole-loop form: iterating ANY 64-bit set yields exactly its members, strictly ascending, each once; count equals popcnt; terminates within 64 steps (unwinding assertion on)"
#[kani::proof]
#[kani::unwind(66)]
fn c20_iteration() {
    let a: u64 = kani::any();
    let mut it = BitBoard(a);
    let mut seen = 0u64;
    let mut last: i32 = -1;
    let mut n = 0u32;
    while let Some(sq) = it.next() {
        let s = sq.to_int() as i32;
        assert!(s > last);
        last = s;
        seen |= 1u64 << s;
        n += 1;
    }
    assert!(seen == a);
    assert!(n == BitBoard(a).popcnt());
}

// @ob id=O20.7 props=C20,C17 tier=quick kind=proof fn="BitBoard::reverse_colors" desc="reverse_colors maps square s to s^56 (rank flipped, file kept) for every square and every set"
#[kani::proof]
fn c20_reverse_colors() {
    let a: u64 = kani::any();
    let s = any_sq_u8();
    let r = BitBoard(a).reverse_colors().0;
    assert!((r >> (s ^ 56)) & 1 == (a >> s) & 1);
    assert!(r == sp::s_mirror_bb(a));
}

// @ob id=O20.8 props=C20 tier=quick kind=proof fn="BitBoard::to_size" desc="to_size(k) == value >> k for k < 64"
#[kani::proof]
fn c20_to_size() {
    let a: u64 = kani::any();
    let k: u8 = kani::any();
    kani::assume(k < 64);
    assert!(BitBoard(a).to_size(k) == (a >> k) as usize);
}

// @ob id=O20.canary props=C20 tier=quick kind=canary fn="BitBoard::popcnt" desc="deliberately false: popcnt < 64 — must FAIL, shows the back end separates true from false on this build"
#[kani::proof]
fn c20_canary() {
    let a: u64 = kani::any();
    assert!(BitBoard(a).popcnt() < 64);
}
