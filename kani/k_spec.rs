// k_spec.rs — code-independent self-checks of the specification library (no crate function is called).
// They tie every closed form / loop-free formulation used in contracts and stand-ins to its definitional twin.
use crate::vhelp::*;
use crate::vspec as sp;

// @ob id=S1.1 props=C16 tier=quick kind=lemma cache=yes fn="spec: s_between,s_line" desc="closed forms of between/line equal the coordinate definitions for all 64x64 pairs and every test square"
#[kani::proof]
fn spec_between_line() {
    let (a, b, t) = (any_sq_u8(), any_sq_u8(), any_sq_u8());
    assert!(sp::has(sp::s_between(a, b), t) == sp::s_is_between(a, t, b));
    assert!(sp::has(sp::s_line(a, b), t) == sp::s_is_on_line(a, t, b));
}

// @ob id=S1.2 props=C15,C01,C03 tier=quick kind=lemma cache=yes fn="spec: s_rook_moves_lf,s_bishop_moves_lf" desc="loop-free occluded-fill slider attacks equal the ray walks for all squares and all 2^64 occupancies"
#[kani::proof]
#[kani::unwind(9)]
fn spec_fill_equals_walk() {
    let s = any_sq_u8();
    let occ: u64 = kani::any();
    assert!(sp::s_rook_moves_lf(s, occ) == sp::s_rook_moves(s, occ));
    assert!(sp::s_bishop_moves_lf(s, occ) == sp::s_bishop_moves(s, occ));
}

pub fn any_pos() -> sp::Pos {
    let pieces: [u64; 6] = kani::any();
    let colors: [u64; 2] = kani::any();
    let stm: usize = if kani::any() { 0 } else { 1 };
    let r0: u8 = kani::any();
    let r1: u8 = kani::any();
    kani::assume(r0 < 4 && r1 < 4);
    let p = sp::Pos { pieces, colors, stm, rights: [r0, r1], ep: None };
    kani::assume(sp::s_consistent(&p));
    p
}

// @ob id=S1.3 props=C01,C03 tier=quick kind=lemma cache=yes deps=any_pos fn="spec: s_attacked,s_attackers" desc="attack detection by flood fill FROM the attackers equals attack detection by walking rays FROM the target, for all consistent placements, targets, colours and blocker sets"
#[kani::proof]
#[kani::unwind(9)]
fn spec_attacked_two_ways() {
    let p = any_pos();
    let t = any_sq_u8();
    let by: usize = if kani::any() { 0 } else { 1 };
    let occ: u64 = kani::any();
    let a = sp::s_attackers(&p, t, by, occ) & !sp::bit(t);
    assert!(sp::s_attacked(&p, t, by, occ) == (a != 0));
}
