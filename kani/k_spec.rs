// k_spec.rs — code-independent self-checks of the specification library (no crate function is called).
// They tie every closed form / loop-free formulation used in contracts and stand-ins to its definitional twin.
use crate::vhelp::*;
use crate::vspec as sp;

// @ob id=S1.1 props=C16 tier=quick kind=lemma cache=yes fn="spec: s_between,s_line" desc="closed forms of between/line equal the coordinate definitions for all 64x64 pairs and every test square"
#[kani::proof]
fn spec_between_line() {
    let (a, b, t) = (any_sq_u8(), any_sq_u8(), any_sq_u8());
    assert!(sp::has(sp::s_between(a, b), t) == sp::s_is_between(a, t, b));
    assert!(sp::has(sp::s_line(a, b), t) == sp::s_is_on_line(a, t, b));
}

// @ob id=S1.2 props=C15 also=C01,C03 tier=quick kind=lemma cache=yes fn="spec: s_rook_moves_lf,s_bishop_moves_lf" desc="loop-free occluded-fill slider attacks equal the ray walks for all squares and all 2^64 occupancies"
#[kani::proof]
#[kani::unwind(9)]
fn spec_fill_equals_walk() {
    let s = any_sq_u8();
    let occ: u64 = kani::any();
    assert!(sp::s_rook_moves_lf(s, occ) == sp::s_rook_moves(s, occ));
    assert!(sp::s_bishop_moves_lf(s, occ) == sp::s_bishop_moves(s, occ));
}

pub fn any_pos() -> sp::Pos {
    let pieces: [u64; 6] = kani::any();
    let colors: [u64; 2] = kani::any();
    let stm: usize = if kani::any() { 0 } else { 1 };
    let r0: u8 = kani::any();
    let r1: u8 = kani::any();
    kani::assume(r0 < 4 && r1 < 4);
    let p = sp::Pos { pieces, colors, stm, rights: [r0, r1], ep: None };
    kani::assume(sp::s_consistent(&p));
    p
}

// @ob id=S1.3 props=C01 also=C03 tier=quick kind=lemma cache=yes deps=any_pos fn="spec: s_attacked,s_attackers" desc="attack detection by flood fill FROM the attackers equals attack detection by walking rays FROM the target, for all consistent placements, targets, colours and blocker sets"
#[kani::proof]
#[kani::unwind(9)]
fn spec_attacked_two_ways() {
    let p = any_pos();
    let t = any_sq_u8();
    let by: usize = if kani::any() { 0 } else { 1 };
    let occ: u64 = kani::any();
    let a = sp::s_attackers(&p, t, by, occ) & !sp::bit(t);
    assert!(sp::s_attacked(&p, t, by, occ) == (a != 0));
}

// ------------------------------------------------------------------------------------------ S3: symmetries of the rules (C17)

fn any_pos_kings() -> sp::Pos {
    let mut p = any_pos();
    kani::assume(sp::s_one_king_each(&p));
    let e: u8 = kani::any();
    p.ep = if kani::any() { kani::assume(e < 64); Some(e) } else { None };
    p
}
fn any_mv() -> sp::Mv {
    let (s, d) = (any_sq_u8(), any_sq_u8());
    let k: u8 = kani::any();
    kani::assume(k < 5);
    sp::Mv { src: s, dst: d, promo: if k == 0 { None } else { Some(k as usize) } }
}

fn sym_check(flip: bool) {
    let mut p = any_pos_kings();
    if flip {
        p.rights = [0, 0];
    }
    let q = if flip { sp::s_flip(&p) } else { sp::s_mirror(&p) };
    let (c1, p1) = sp::s_check_pin(&p);
    let (c2, p2) = sp::s_check_pin(&q);
    if flip {
        assert!(c2 == sp::s_flip_bb(c1) && p2 == sp::s_flip_bb(p1));
    } else {
        assert!(c2 == sp::s_mirror_bb(c1) && p2 == sp::s_mirror_bb(p1));
    }
    assert!(sp::s_in_check(&p, p.stm) == sp::s_in_check(&q, q.stm));
}
fn sym_legal(flip: bool) {
    let mut p = any_pos_kings();
    if flip {
        p.rights = [0, 0];
    }
    kani::assume(sp::s_ep_consistent(&p));
    let q = if flip { sp::s_flip(&p) } else { sp::s_mirror(&p) };
    let m = any_mv();
    let mm = if flip { sp::s_flip_mv(&m) } else { sp::s_mirror_mv(&m) };
    let l = sp::s_legal(&p, &m);
    assert!(l == sp::s_legal(&q, &mm));
    kani::cover!(l);
}
fn sym_apply(flip: bool) {
    let mut p = any_pos_kings();
    if flip {
        p.rights = [0, 0];
    }
    kani::assume(sp::s_ep_consistent(&p));
    let q = if flip { sp::s_flip(&p) } else { sp::s_mirror(&p) };
    let m = any_mv();
    let mm = if flip { sp::s_flip_mv(&m) } else { sp::s_mirror_mv(&m) };
    kani::assume(sp::s_pseudo_geom(&p, &m));
    let a = sp::s_apply(&p, &m);
    let b = sp::s_apply(&q, &mm);
    assert!(sp::s_pos_eq(&(if flip { sp::s_flip(&a) } else { sp::s_mirror(&a) }), &b));
}

// @ob id=S3.1a props=C17 tier=quick kind=lemma cache=yes deps=any_pos,any_pos_kings,sym_check weight=medium fn="spec: s_mirror,s_check_pin,s_in_check" desc="colour symmetry of the rules (code-independent): swapping colours and flipping top-bottom maps the checkers and pinned sets and the in-check status of every position onto their mirror images"
#[kani::proof]
#[kani::unwind(9)]
fn spec_mirror_checkpin() {
    sym_check(false);
}
// @ob id=S3.1b props=C17 tier=quick kind=lemma cache=yes deps=any_pos,any_pos_kings,any_mv,sym_legal weight=medium fn="spec: s_mirror,s_legal" desc="colour symmetry: a move is legal in a position iff the mirrored move is legal in the mirrored position (all positions with consistent en-passant state, all 64x64x5 moves)"
#[kani::proof]
#[kani::unwind(9)]
fn spec_mirror_legal() {
    sym_legal(false);
}
// @ob id=S3.1c props=C17 tier=quick kind=lemma cache=yes deps=any_pos,any_pos_kings,any_mv,sym_apply weight=medium fn="spec: s_mirror,s_apply" desc="colour symmetry: the successor of the mirrored position under the mirrored move is the mirror image of the successor (castling, en passant, promotion, rights included)"
#[kani::proof]
#[kani::unwind(9)]
fn spec_mirror_apply() {
    sym_apply(false);
}
// @ob id=S3.2a props=C17 tier=quick kind=lemma cache=yes deps=any_pos,any_pos_kings,sym_check weight=medium fn="spec: s_flip,s_check_pin,s_in_check" desc="left-right symmetry for positions WITHOUT castling rights: checkers, pinned and in-check status map onto their flipped images"
#[kani::proof]
#[kani::unwind(9)]
fn spec_flip_checkpin() {
    sym_check(true);
}
// @ob id=S3.2b props=C17 tier=quick kind=lemma cache=yes deps=any_pos,any_pos_kings,any_mv,sym_legal weight=medium fn="spec: s_flip,s_legal" desc="left-right symmetry without castling rights: legality is preserved by flipping files a<->h"
#[kani::proof]
#[kani::unwind(9)]
fn spec_flip_legal() {
    sym_legal(true);
}
// @ob id=S3.2c props=C17 tier=quick kind=lemma cache=yes deps=any_pos,any_pos_kings,any_mv,sym_apply weight=medium fn="spec: s_flip,s_apply" desc="left-right symmetry without castling rights: successors map onto flipped successors"
#[kani::proof]
#[kani::unwind(9)]
fn spec_flip_apply() {
    sym_apply(true);
}

// @ob id=S3.canary props=C17 tier=quick kind=canary fn="spec: s_mirror" desc="deliberately false: mirroring never changes the checkers set — must FAIL"
#[kani::proof]
#[kani::unwind(9)]
fn spec_mirror_canary() {
    let p = any_pos_kings();
    let q = sp::s_mirror(&p);
    assert!(sp::s_check_pin(&p).0 == sp::s_check_pin(&q).0);
}

// @ob id=S1.6 props=C03 tier=quick kind=lemma cache=yes deps=any_pos weight=medium fn="spec: s_check_pin_pointwise,s_check_pin" desc="code-independent: the pointwise slider rule (checker iff nothing between, pinned = the single man between; XOR-accumulated over the candidate sliders in any order) equals the eight-ray-walk definition of checkers and raw pinned, for every consistent placement with one king per side and EVERY king square"
#[kani::proof]
#[kani::unwind(66)]
fn spec_pointwise_equals_walks() {
    let mut p = any_pos();
    kani::assume(sp::s_one_king_each(&p));
    let (c1, p1) = sp::s_check_pin_pointwise(&p);
    let (c2, p2) = sp::s_check_pin(&p);
    assert!(c1 == c2);
    assert!(p1 == p2);
}
