// vhelp.rs — symbolic constructors for the crate's value types (type invariants as assumptions).
use crate::bitboard::BitBoard;
use crate::color::Color;
use crate::file::File;
use crate::piece::Piece;
use crate::rank::Rank;
use crate::square::Square;

pub fn any_sq_u8() -> u8 {
    let s: u8 = kani::any();
    kani::assume(s < 64);
    s
}
pub fn any_square() -> Square {
    Square::new(any_sq_u8())
}
pub fn any_color() -> Color {
    if kani::any() {
        Color::White
    } else {
        Color::Black
    }
}
pub fn color_of(c: usize) -> Color {
    if c == 0 {
        Color::White
    } else {
        Color::Black
    }
}
pub fn any_piece() -> Piece {
    let p: u8 = kani::any();
    kani::assume(p < 6);
    piece_of(p as usize)
}
pub fn piece_of(p: usize) -> Piece {
    match p {
        0 => Piece::Pawn,
        1 => Piece::Knight,
        2 => Piece::Bishop,
        3 => Piece::Rook,
        4 => Piece::Queen,
        _ => Piece::King,
    }
}
pub fn any_file() -> File {
    let f: u8 = kani::any();
    kani::assume(f < 8);
    File::from_index(f as usize)
}
pub fn any_rank() -> Rank {
    let r: u8 = kani::any();
    kani::assume(r < 8);
    Rank::from_index(r as usize)
}
pub fn any_bb() -> BitBoard {
    BitBoard(kani::any())
}
