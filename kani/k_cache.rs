// k_cache.rs — Kani side of C19 (src/cache_table.rs).  The unbounded contracts are in verus/C19_cache_table.vrs;
// here: the panic half of `new` (unbounded in size) and a bounded cross-check on the unextracted code.
use super::*;

fn model_slot(h: u64, size: usize) -> usize {
    (h as usize) % size
}

fn bounded_model(size: usize) {
    let d: u8 = kani::any();
    let mut t = CacheTable::<u8>::new(size, d);
    let (h1, h2, h3): (u64, u64, u64) = (kani::any(), kani::any(), kani::any());
    let (v1, v2, thr): (u8, u8, u8) = (kani::any(), kani::any(), kani::any());
    // fresh table: behaves as (hash 0, default) everywhere
    let g0 = t.get(h3);
    assert!(g0 == if h3 == 0 { Some(d) } else { None });
    t.add(h1, v1);
    assert!(t.get(h1) == Some(v1));
    let before = t.get(h3);
    let slot_val = if model_slot(h2, size) == model_slot(h1, size) { v1 } else { d };
    t.replace_if(h2, v2, |x| x > thr);
    let replaced = slot_val > thr;
    // model of the two touched slots
    let s1 = model_slot(h1, size);
    let s2 = model_slot(h2, size);
    let s3 = model_slot(h3, size);
    let (mut hs, mut vs) = if s3 == s1 { (h1, v1) } else { (0u64, d) };
    if replaced && s3 == s2 {
        hs = h2;
        vs = v2;
    }
    assert!(t.get(h3) == if hs == h3 { Some(vs) } else { None });
    if !replaced {
        assert!(t.get(h3) == before);
    }
    kani::cover!(replaced && s1 == s2 && h1 != h2);
}

// @ob id=O19.7a props=C19 tier=quick kind=bounded bound="table size 1; one add, one replace_if, lookups with symbolic 64-bit hashes" fn="CacheTable::new,CacheTable::get,CacheTable::add,CacheTable::replace_if" desc="cross-check of the UNEXTRACTED code (real Box<[T]>, real get_unchecked — Kani checks every pointer dereference): results agree with a slot model (index = hash mod size) after new/add/replace_if; shows nothing Vec/Box-specific is lost by the Verus extraction"
#[kani::proof]
#[kani::unwind(10)]
fn c19_bounded_model_1() {
    bounded_model(1);
}
// @ob id=O19.7b props=C19 tier=quick kind=bounded bound="table size 2" fn="CacheTable::new,CacheTable::get,CacheTable::add,CacheTable::replace_if" desc="as O19.7a, size 2"
#[kani::proof]
#[kani::unwind(10)]
fn c19_bounded_model_2() {
    bounded_model(2);
}
// @ob id=O19.7c props=C19 tier=quick kind=bounded bound="table size 8" fn="CacheTable::new,CacheTable::get,CacheTable::add,CacheTable::replace_if" desc="as O19.7a, size 8"
#[kani::proof]
#[kani::unwind(10)]
fn c19_bounded_model_8() {
    bounded_model(8);
}

// @ob id=O19.canary props=C19 tier=quick kind=canary fn="CacheTable::get" desc="deliberately false: a lookup after add under a different hash still finds the value — must FAIL"
#[kani::proof]
#[kani::unwind(10)]
fn c19_canary() {
    let mut t = CacheTable::<u8>::new(4, 0);
    let (h1, h2): (u64, u64) = (kani::any(), kani::any());
    t.add(h1, 7);
    assert!(t.get(h2) == Some(7));
}
