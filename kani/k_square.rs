// k_square.rs — contracts on src/square.rs, src/file.rs, src/rank.rs, src/color.rs (C16, C17).  Child module of `square`.
use super::*;
use crate::vhelp::*;
use crate::vspec as sp;

// @ob id=O16.10 props=C16 tier=quick kind=proof fn="Square::new,Square::make_square,Square::get_rank,Square::get_file,Square::to_int,Square::to_index" desc="new(x) == x mod 64; make_square(r,f) == 8r+f; get_rank/get_file are its inverse, for all 256 bytes and all 64 (rank,file) pairs"
#[kani::proof]
fn c16_square_basic() {
    let x: u8 = kani::any();
    let sq = Square::new(x);
    assert!(sq.to_int() == x & 63);
    assert!(sq.to_index() == (x & 63) as usize);
    assert!(sq.get_rank().to_index() == ((x & 63) >> 3) as usize);
    assert!(sq.get_file().to_index() == (x & 7) as usize);
    let (r, f) = (any_rank(), any_file());
    let m = Square::make_square(r, f);
    assert!(m.to_index() == r.to_index() * 8 + f.to_index());
    assert!(m.get_rank() == r && m.get_file() == f);
    assert!(Square::make_square(sq.get_rank(), sq.get_file()) == sq);
    assert!(Square::default().to_int() == 0);
}

// @ob id=O16.11 props=C16 tier=quick kind=proof fn="Square::up,Square::down,Square::left,Square::right,Square::forward,Square::backward" desc="checked steps: one step in the named direction (forward/backward by colour), None exactly at the board edge, for all 64 squares and both colours"
#[kani::proof]
fn c16_square_steps() {
    let s = any_sq_u8();
    let sq = Square::new(s);
    let (r, f) = (sp::rank_of(s), sp::file_of(s));
    let want = |dr: i32, df: i32| -> Option<Square> {
        if sp::on_board(r + dr, f + df) {
            Some(Square::new(sp::sq_of(r + dr, f + df)))
        } else {
            None
        }
    };
    assert!(sq.up() == want(1, 0));
    assert!(sq.down() == want(-1, 0));
    assert!(sq.left() == want(0, -1));
    assert!(sq.right() == want(0, 1));
    assert!(sq.forward(Color::White) == want(1, 0));
    assert!(sq.forward(Color::Black) == want(-1, 0));
    assert!(sq.backward(Color::White) == want(-1, 0));
    assert!(sq.backward(Color::Black) == want(1, 0));
}

// @ob id=O16.12 props=C16,C17 tier=quick kind=proof fn="Square::uup,Square::udown,Square::uleft,Square::uright,Square::uforward,Square::ubackward" desc="wrapping steps: one step in the named direction, wrapping around the edge within the same file (vertical) or the same rank (horizontal); never panic; all 64 squares, both colours"
#[kani::proof]
fn c16_square_usteps() {
    let s = any_sq_u8();
    let sq = Square::new(s);
    let (r, f) = (sp::rank_of(s), sp::file_of(s));
    let w = |dr: i32, df: i32| -> Square { Square::new(sp::sq_of((r + dr + 8) % 8, (f + df + 8) % 8)) };
    assert!(sq.uup() == w(1, 0));
    assert!(sq.udown() == w(-1, 0));
    assert!(sq.uleft() == w(0, -1));
    assert!(sq.uright() == w(0, 1));
    assert!(sq.uforward(Color::White) == w(1, 0));
    assert!(sq.uforward(Color::Black) == w(-1, 0));
    assert!(sq.ubackward(Color::White) == w(-1, 0));
    assert!(sq.ubackward(Color::Black) == w(1, 0));
    // colour symmetry (C17): forward for white on s mirrors forward for black on s^56
    assert!(sq.uforward(Color::White).to_int() ^ 56 == Square::new(s ^ 56).uforward(Color::Black).to_int());
    assert!(sq.ubackward(Color::White).to_int() ^ 56 == Square::new(s ^ 56).ubackward(Color::Black).to_int());
}

// @ob id=O16.13 props=C16 also=C07 tier=quick kind=proof fn="File::from_index,File::left,File::right,File::to_index,Rank::from_index,Rank::up,Rank::down,Rank::to_index" desc="from_index(i) has index i mod 8 for EVERY usize (no panic, the unreachable arm is unreachable); left/right/up/down step by one modulo 8 without overflow"
#[kani::proof]
fn c16_file_rank() {
    let i: usize = kani::any();
    assert!(File::from_index(i).to_index() == i & 7);
    assert!(Rank::from_index(i).to_index() == i & 7);
    let f = any_file();
    let r = any_rank();
    assert!(f.left().to_index() == (f.to_index() + 7) % 8);
    assert!(f.right().to_index() == (f.to_index() + 1) % 8);
    assert!(r.down().to_index() == (r.to_index() + 7) % 8);
    assert!(r.up().to_index() == (r.to_index() + 1) % 8);
}

// @ob id=O17.1 props=C17,C16 tier=quick kind=proof fn="Color::to_my_backrank,Color::to_their_backrank,Color::to_second_rank,Color::to_fourth_rank,Color::to_seventh_rank,Color::not,Color::to_index" desc="per-colour rank helpers: white 1/8/2/4/7, black the mirror image 8/1/7/5/2 (rank index r <-> 7-r); ! swaps the colours; to_index is 0/1"
#[kani::proof]
fn c17_color_ranks() {
    let c = any_color();
    let o = !c;
    assert!(o != c && !o == c);
    assert!(Color::White.to_index() == 0 && Color::Black.to_index() == 1);
    assert!(Color::White.to_my_backrank().to_index() == 0);
    assert!(Color::White.to_their_backrank().to_index() == 7);
    assert!(Color::White.to_second_rank().to_index() == 1);
    assert!(Color::White.to_fourth_rank().to_index() == 3);
    assert!(Color::White.to_seventh_rank().to_index() == 6);
    assert!(c.to_my_backrank().to_index() == 7 - o.to_my_backrank().to_index());
    assert!(c.to_their_backrank().to_index() == 7 - o.to_their_backrank().to_index());
    assert!(c.to_second_rank().to_index() == 7 - o.to_second_rank().to_index());
    assert!(c.to_fourth_rank().to_index() == 7 - o.to_fourth_rank().to_index());
    assert!(c.to_seventh_rank().to_index() == 7 - o.to_seventh_rank().to_index());
    assert!(c.to_their_backrank() == o.to_my_backrank());
}
