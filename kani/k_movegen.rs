// k_movegen.rs — Kani side of C14 / C01 on src/movegen/movegen.rs (child module: private fields visible).
// The iterator contracts are stated over ARBITRARY generator states satisfying the iterator invariant `inv`
// (not only states produced by new_legal), one step at a time; Verus proves the same contracts for lists of any
// length on the extracted text, Kani checks them on the real NoDrop<ArrayVec<_,18>> with at most 3 slots (bounded).
use super::*;
use crate::vhelp::*;
use crate::vspec as sp;

pub(crate) const MAXN: usize = 3;

pub(crate) fn any_entry() -> SquareAndBitBoard {
    SquareAndBitBoard::new(any_square(), BitBoard(kani::any()), kani::any())
}

/// arbitrary generator with n <= MAXN slots (no invariant assumed)
pub(crate) fn any_gen_raw() -> MoveGen {
    let n: usize = kani::any();
    kani::assume(n <= MAXN);
    let mut moves: MoveList = NoDrop::new(ArrayVec::<SquareAndBitBoard, 18>::new());
    let mut i = 0;
    while i < MAXN {
        if i < n {
            moves.push(any_entry());
        }
        i += 1;
    }
    let pi: usize = kani::any();
    let idx: usize = kani::any();
    MoveGen { moves, promotion_index: pi, iterator_mask: BitBoard(kani::any()), index: idx }
}

pub(crate) fn entry_parts(e: &SquareAndBitBoard) -> (u8, u64, bool) {
    (e.square.to_int(), e.bitboard.0, e.promotion)
}

/// a freshly started generator as new_legal returns it; remembers its content for the calling harness
pub(crate) static mut LAST_GEN: ([(u8, u64, bool); MAXN], usize) = ([(0, 0, false); MAXN], 0);
pub(crate) fn fresh(g: &MoveGen) -> bool {
    let ok = g.index == 0 && g.promotion_index == 0 && g.iterator_mask.0 == !0u64 && inv(g);
    let s = snapshot(g);
    unsafe {
        LAST_GEN = (s.0, s.1);
    }
    ok
}
pub(crate) fn last_gen_snapshot() -> ([(u8, u64, bool); MAXN], usize) {
    unsafe { LAST_GEN }
}

fn exhausted(g: &MoveGen, i: usize) -> bool {
    g.moves[i].bitboard.0 & g.iterator_mask.0 == 0
}

/// iterator invariant (DESIGN §6 C14)
pub(crate) fn inv(g: &MoveGen) -> bool {
    let n = g.moves.len();
    if g.index > n || g.promotion_index >= 4 {
        return false;
    }
    let mut i = 0;
    while i < MAXN {
        if i < n {
            if i < g.index && !exhausted(g, i) {
                return false;
            }
            if i >= g.index && i + 1 < n && exhausted(g, i) && !exhausted(g, i + 1) {
                return false;
            }
        }
        i += 1;
    }
    if g.promotion_index > 0 && !(g.index < n && g.moves[g.index].promotion && !exhausted(g, g.index)) {
        return false;
    }
    true
}

/// number of moves still to be yielded under the current mask
pub(crate) fn model_pending(g: &MoveGen) -> usize {
    let n = g.moves.len();
    let mut total = 0usize;
    let mut i = 0;
    while i < MAXN {
        if i < n && i >= g.index {
            let c = (g.moves[i].bitboard.0 & g.iterator_mask.0).count_ones() as usize;
            total += if g.moves[i].promotion { 4 * c } else { c };
        }
        i += 1;
    }
    total - g.promotion_index
}

fn snapshot(g: &MoveGen) -> ([(u8, u64, bool); MAXN], usize, usize, usize, u64) {
    let mut a = [(0u8, 0u64, false); MAXN];
    let mut i = 0;
    while i < MAXN {
        if i < g.moves.len() {
            a[i] = (g.moves[i].square.to_int(), g.moves[i].bitboard.0, g.moves[i].promotion);
        }
        i += 1;
    }
    (a, g.moves.len(), g.index, g.promotion_index, g.iterator_mask.0)
}

// @ob id=O14.2k props=C14 also=C04 tier=quick kind=bounded bound="move list of at most 3 slots (real NoDrop<ArrayVec<_,18>>); slot contents, mask, index, promotion_index fully symbolic under the iterator invariant" fn="ExactSizeIterator::len for MoveGen,Iterator::size_hint for MoveGen" desc="at EVERY moment of an iteration (any state satisfying the iterator invariant, incl. partly consumed slots and a promotion in progress) len() equals the number of moves still to be yielded under the current mask, and size_hint() == (len, Some(len)); the generator is not modified"
#[kani::proof]
#[kani::unwind(5)]
fn c14_len_exact() {
    let g = any_gen_raw();
    kani::assume(inv(&g));
    let before = snapshot(&g);
    let want = model_pending(&g);
    assert!(g.len() == want);
    assert!(g.size_hint() == (want, Some(want)));
    assert!(snapshot(&g) == before);
    kani::cover!(g.index > 0 && want > 0);
    kani::cover!(g.promotion_index > 0);
}

// @ob id=O14.1k props=C14 also=C01 tier=quick kind=bounded bound="move list of at most 3 slots (real ArrayVec)" fn="Iterator::next for MoveGen" desc="one step from ANY state satisfying the invariant: None exactly when nothing is pending (state unchanged); otherwise the yielded move is (square of slot index, lowest masked destination of that slot, promotion piece PROMOTION_PIECES[promotion_index] for promotion slots and None otherwise), the pending count drops by exactly one, the destination bit is cleared exactly when the move (or the fourth promotion) consumed it, no other slot, the mask and the list length change, and the invariant is re-established"
#[kani::proof]
#[kani::unwind(5)]
fn c14_next_step() {
    let mut g = any_gen_raw();
    kani::assume(inv(&g));
    let (a0, n0, idx0, pi0, mask0) = snapshot(&g);
    let want = model_pending(&g);
    let r = g.next();
    let (a1, n1, _idx1, pi1, mask1) = snapshot(&g);
    assert!(n1 == n0 && mask1 == mask0);
    match r {
        None => {
            assert!(want == 0);
            assert!(snapshot(&g) == (a0, n0, idx0, pi0, mask0));
        }
        Some(m) => {
            assert!(want > 0 && idx0 < n0);
            let (sq, bb, promo) = a0[idx0];
            let masked = bb & mask0;
            assert!(masked != 0);
            let dest = masked.trailing_zeros() as u8;
            assert!(m.get_source().to_int() == sq && m.get_dest().to_int() == dest);
            if promo {
                assert!(m.get_promotion() == Some(PROMOTION_PIECES[pi0]));
                assert!(pi1 == (pi0 + 1) % 4);
                assert!(a1[idx0].1 == if pi0 == 3 { bb & !(1u64 << dest) } else { bb });
            } else {
                assert!(m.get_promotion().is_none() && pi1 == 0 && pi0 == 0);
                assert!(a1[idx0].1 == bb & !(1u64 << dest));
            }
            assert!(a1[idx0].0 == sq && a1[idx0].2 == promo);
            let mut i = 0;
            while i < MAXN {
                if i != idx0 {
                    assert!(a1[i] == a0[i]);
                }
                i += 1;
            }
            assert!(inv(&g));
            assert!(model_pending(&g) + 1 == want);
        }
    }
    kani::cover!(r.is_some() && pi0 == 3);
    kani::cover!(r.is_none() && n0 == MAXN);
}

// @ob id=O14.3k props=C14 tier=quick kind=bounded bound="move list of at most 3 slots (real ArrayVec)" fn="MoveGen::set_iterator_mask" desc="setting a mask on ANY generator with no promotion in progress: the slots are a permutation of the old slots (nothing lost, duplicated or altered), the mask is the new mask, index restarts at 0, and the iterator invariant holds (used slots form a prefix) — so the next moves are exactly the not-yet-yielded moves landing on the mask"
#[kani::proof]
#[kani::unwind(5)]
fn c14_set_mask() {
    let mut g = any_gen_raw();
    kani::assume(g.promotion_index == 0 && g.index <= g.moves.len());
    let (a0, n0, _i0, _p0, _m0) = snapshot(&g);
    let mask: u64 = kani::any();
    g.set_iterator_mask(BitBoard(mask));
    let (a1, n1, i1, p1, m1) = snapshot(&g);
    assert!(n1 == n0 && i1 == 0 && p1 == 0 && m1 == mask);
    // permutation: every old slot occurs in the new list as often as in the old one (n <= 3)
    let mut i = 0;
    while i < MAXN {
        if i < n0 {
            let mut c0 = 0;
            let mut c1 = 0;
            let mut j = 0;
            while j < MAXN {
                if j < n0 && a0[j] == a0[i] {
                    c0 += 1;
                }
                if j < n0 && a1[j] == a0[i] {
                    c1 += 1;
                }
                j += 1;
            }
            assert!(c0 == c1);
        }
        i += 1;
    }
    assert!(inv(&g));
    kani::cover!(n0 == MAXN && a1[0] != a0[0]);
}

// @ob id=O14.4k props=C14 tier=quick kind=bounded bound="move list of at most 3 slots (real ArrayVec)" fn="MoveGen::remove_mask,MoveGen::remove_move" desc="remove_mask(x) clears exactly the destinations in x from EVERY slot and nothing else; remove_move(m) clears the destination of m from EVERY slot whose source is m's source (an en-passant capture lives in a second slot with the same source) and leaves every other (source,destination) pair in place; it returns whether a slot with that source exists"
#[kani::proof]
#[kani::unwind(5)]
fn c14_removals() {
    let mut g = any_gen_raw();
    kani::assume(g.index <= g.moves.len());
    let (a0, n0, i0, p0, m0) = snapshot(&g);
    if kani::any() {
        let x: u64 = kani::any();
        g.remove_mask(BitBoard(x));
        let (a1, n1, i1, p1, m1) = snapshot(&g);
        assert!((n1, i1, p1, m1) == (n0, i0, p0, m0));
        let mut i = 0;
        while i < MAXN {
            if i < n0 {
                assert!(a1[i] == (a0[i].0, a0[i].1 & !x, a0[i].2));
            }
            i += 1;
        }
    } else {
        let mv = ChessMove::new(any_square(), any_square(), None);
        let (s, d) = (mv.get_source().to_int(), mv.get_dest().to_int());
        let r = g.remove_move(mv);
        let (a1, n1, i1, p1, m1) = snapshot(&g);
        assert!((n1, i1, p1, m1) == (n0, i0, p0, m0));
        let mut any_src = false;
        let mut i = 0;
        while i < MAXN {
            if i < n0 {
                if a0[i].0 == s {
                    any_src = true;
                    assert!(a1[i] == (a0[i].0, a0[i].1 & !(1u64 << d), a0[i].2));
                } else {
                    assert!(a1[i] == a0[i]);
                }
            }
            i += 1;
        }
        assert!(r == any_src);
    }
}

// @ob id=O14.canary props=C14 tier=quick kind=canary fn="Iterator::next for MoveGen" desc="deliberately false: next() never yields a promotion — must FAIL"
#[kani::proof]
#[kani::unwind(5)]
fn c14_canary() {
    let mut g = any_gen_raw();
    kani::assume(inv(&g));
    if let Some(m) = g.next() {
        assert!(m.get_promotion().is_none());
    }
}

