// k_zobrist.rs — the Zobrist key tables (C09, C08).  Child module of `zobrist` (the tables are private).
use super::*;
use crate::vhelp::*;

// @ob id=O9.1 props=C09 tier=quick kind=proof fn="Zobrist::piece,Zobrist::castles,Zobrist::en_passant,Zobrist::color" desc="on the real generated tables: all 768 piece-square keys are non-zero and pairwise distinct; the 4 castle keys of a colour are pairwise distinct; the 8 en-passant keys of a colour are non-zero and pairwise distinct; the side key is non-zero; all accessor indices in bounds for every piece, square, colour, file, rights value"
#[kani::proof]
fn c09_keys_distinct() {
    let (p1, s1, c1) = (any_piece(), any_square(), any_color());
    let (p2, s2, c2) = (any_piece(), any_square(), any_color());
    let k1 = Zobrist::piece(p1, s1, c1);
    let k2 = Zobrist::piece(p2, s2, c2);
    assert!(k1 != 0);
    if p1 != p2 || s1 != s2 || c1 != c2 {
        assert!(k1 != k2);
    }
    let c = any_color();
    let (r1, r2): (u8, u8) = (kani::any(), kani::any());
    kani::assume(r1 < 4 && r2 < 4 && r1 != r2);
    assert!(Zobrist::castles(CastleRights::from_index(r1 as usize), c) != Zobrist::castles(CastleRights::from_index(r2 as usize), c));
    let (f1, f2) = (any_file(), any_file());
    assert!(Zobrist::en_passant(f1, c) != 0);
    if f1 != f2 {
        assert!(Zobrist::en_passant(f1, c) != Zobrist::en_passant(f2, c));
    }
    assert!(Zobrist::color() != 0);
}

// @ob id=O9.canary props=C09 tier=quick kind=canary fn="Zobrist::piece" desc="deliberately false: every piece key has its top bit clear — must FAIL"
#[kani::proof]
fn c09_canary() {
    assert!(Zobrist::piece(any_piece(), any_square(), any_color()) >> 63 == 0);
}
