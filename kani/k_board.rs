// k_board.rs — contracts on src/board.rs (C02, C03, C05, C07, C08, C09, C18).  Child module of `board`
// (needed to read and build the private fields).
use super::*;
use crate::vhelp::*;
use crate::vspec as sp;

pub(crate) fn to_pos(b: &Board) -> sp::Pos {
    sp::Pos {
        pieces: [b.pieces[0].0, b.pieces[1].0, b.pieces[2].0, b.pieces[3].0, b.pieces[4].0, b.pieces[5].0],
        colors: [b.color_combined[0].0, b.color_combined[1].0],
        stm: b.side_to_move.to_index(),
        rights: [b.castle_rights[0].to_index() as u8, b.castle_rights[1].to_index() as u8],
        ep: match b.en_passant {
            Some(s) => Some(s.to_int()),
            None => None,
        },
    }
}

pub(crate) fn any_rights() -> CastleRights {
    let r: u8 = kani::any();
    kani::assume(r < 4);
    CastleRights::from_index(r as usize)
}

pub(crate) fn any_ep() -> Option<Square> {
    if kani::any() {
        Some(any_square())
    } else {
        None
    }
}

/// arbitrary bit patterns in every field (only the enum/Square type invariants hold)
pub(crate) fn any_raw_board() -> Board {
    let p: [u64; 6] = kani::any();
    let c: [u64; 2] = kani::any();
    Board {
        pieces: [BitBoard(p[0]), BitBoard(p[1]), BitBoard(p[2]), BitBoard(p[3]), BitBoard(p[4]), BitBoard(p[5])],
        color_combined: [BitBoard(c[0]), BitBoard(c[1])],
        combined: BitBoard(kani::any()),
        side_to_move: any_color(),
        castle_rights: [any_rights(), any_rights()],
        pinned: BitBoard(kani::any()),
        checkers: BitBoard(kani::any()),
        hash: kani::any(),
        en_passant: any_ep(),
    }
}

/// occupancy part of the representation invariant: piece boards pairwise disjoint, colours disjoint,
/// combined = union of pieces = union of colours, exactly one king per side.  checkers / pinned / hash
/// are arbitrary; castle rights and en-passant arbitrary.
pub(crate) fn any_board() -> Board {
    let mut b = any_raw_board();
    let pos = to_pos(&b);
    kani::assume(sp::s_consistent(&pos));
    kani::assume(sp::s_one_king_each(&pos));
    b.combined = BitBoard(pos.occ());
    b
}

/// as `any_board`, with the king of colour `kc` fixed on `ksq`
pub(crate) fn any_board_king(kc: usize, ksq: u8) -> Board {
    let b = any_board();
    kani::assume(b.pieces[5].0 & b.color_combined[kc].0 == 1u64 << ksq);
    b
}

pub(crate) fn same_placement(a: &Board, b: &Board) -> bool {
    a.pieces == b.pieces && a.color_combined == b.color_combined && a.combined == b.combined
}

// ------------------------------------------------------------------------------------------ accessors

// @ob id=O3.3a props=C03,C08 tier=quick kind=proof fn="Board::xor" desc="xor(piece,{sq},colour) toggles exactly bit sq in pieces[piece], color_combined[colour] and combined, toggles exactly the Zobrist key of (piece,sq,colour) in the hash, and changes nothing else; for every raw board state, piece, square, colour; unchecked indices in bounds"
#[kani::proof]
fn c03_xor_frame() {
    let b0 = any_raw_board();
    let mut b = b0;
    let (p, c, s) = (any_piece(), any_color(), any_square());
    b.xor(p, BitBoard::from_square(s), c);
    let bit = 1u64 << s.to_int();
    let mut i = 0;
    while i < 6 {
        assert!(b.pieces[i].0 == if i == p.to_index() { b0.pieces[i].0 ^ bit } else { b0.pieces[i].0 });
        i += 1;
    }
    assert!(b.color_combined[c.to_index()].0 == b0.color_combined[c.to_index()].0 ^ bit);
    assert!(b.color_combined[1 - c.to_index()] == b0.color_combined[1 - c.to_index()]);
    assert!(b.combined.0 == b0.combined.0 ^ bit);
    assert!(b.hash == b0.hash ^ Zobrist::piece(p, s, c));
    assert!(b.side_to_move == b0.side_to_move && b.castle_rights == b0.castle_rights && b.pinned == b0.pinned);
    assert!(b.checkers == b0.checkers && b.en_passant == b0.en_passant);
}

// @ob id=O3.3b props=C03 tier=quick kind=proof fn="Board::piece_on,Board::color_on,Board::king_square" desc="on every board satisfying the occupancy invariant: piece_on(sq) is the unique piece type whose board has bit sq (None iff combined lacks it), color_on likewise for colours, king_square(c) is the square of c's king; all 64 squares"
#[kani::proof]
fn c03_square_queries() {
    let b = any_board();
    let pos = to_pos(&b);
    let s = any_sq_u8();
    let sq = Square::new(s);
    let want_p = pos.piece_at(s);
    match b.piece_on(sq) {
        None => assert!(want_p.is_none() && b.combined.0 & (1u64 << s) == 0),
        Some(p) => assert!(want_p == Some(p.to_index())),
    }
    match b.color_on(sq) {
        None => assert!(pos.color_at(s).is_none()),
        Some(c) => assert!(pos.color_at(s) == Some(c.to_index())),
    }
    assert!(b.piece_on(sq).is_some() == b.color_on(sq).is_some());
    let c = any_color();
    let k = b.king_square(c);
    assert!(b.pieces[5].0 & b.color_combined[c.to_index()].0 == 1u64 << k.to_int());
    assert!(b.piece_on(k) == Some(Piece::King) && b.color_on(k) == Some(c));
}

// @ob id=O3.3c props=C03 tier=quick kind=proof fn="Board::pieces,Board::color_combined,Board::combined,Board::castle_rights,Board::my_castle_rights,Board::their_castle_rights,Board::side_to_move,Board::en_passant,Board::pinned,Board::checkers" desc="every accessor returns exactly the field it names (unchecked index in bounds for all pieces/colours); my/their castle rights are those of side to move / the other side"
#[kani::proof]
fn c03_accessors() {
    let b = any_raw_board();
    let (p, c) = (any_piece(), any_color());
    assert!(*b.pieces(p) == b.pieces[p.to_index()]);
    assert!(*b.color_combined(c) == b.color_combined[c.to_index()]);
    assert!(*b.combined() == b.combined);
    assert!(b.castle_rights(c) == b.castle_rights[c.to_index()]);
    assert!(b.my_castle_rights() == b.castle_rights[b.side_to_move.to_index()]);
    assert!(b.their_castle_rights() == b.castle_rights[1 - b.side_to_move.to_index()]);
    assert!(b.side_to_move() == b.side_to_move);
    assert!(b.en_passant() == b.en_passant);
    assert!(*b.pinned() == b.pinned && *b.checkers() == b.checkers);
}

// @ob id=O3.4 props=C03,C08 tier=quick kind=proof fn="PartialEq for Board (derived)" desc="determinacy: two boards are == exactly when placement, side, rights, en-passant, checkers, pinned and hash field agree; hence two boards that satisfy the representation invariant (checkers/pinned/hash are functions of the position) and show the same position are =="
#[kani::proof]
fn c03_eq_determinacy() {
    let a = any_raw_board();
    let b = any_raw_board();
    let fields = same_placement(&a, &b)
        && a.side_to_move == b.side_to_move
        && a.castle_rights == b.castle_rights
        && a.en_passant == b.en_passant
        && a.checkers == b.checkers
        && a.pinned == b.pinned
        && a.hash == b.hash;
    assert!((a == b) == fields);
}

// ------------------------------------------------------------------------------------------ check / pin

// @ob id=O3.1 props=C03,C18,C07 tier=quick kind=proof gen=king qsel=16 unwind=30 weight=light stubs=geom fn="Board::update_pin_info" desc="for the fixed king square and EVERY placement satisfying the occupancy invariant: afterwards checkers = exactly the enemy men attacking the king and pinned = exactly the lone men between the king and an aligned enemy slider (eight ray walks from the king, first and second blocker), nothing else changes; table accessors replaced by the closed forms that O16.1/3/4/5 prove equal to them on the real tables; loop unwinding assertion on (complete for the case)"
fn c03_update_pin_info(kc: usize, ksq: u8) {
    let mut b = any_board_king(kc, ksq);
    kani::assume(b.side_to_move.to_index() == kc);
    let b0 = b;
    b.update_pin_info();
    let (ch, pin) = sp::s_check_pin(&to_pos(&b0));
    assert!(b.checkers.0 == ch);
    assert!(b.pinned.0 == pin);
    assert!(same_placement(&b, &b0) && b.side_to_move == b0.side_to_move && b.castle_rights == b0.castle_rights);
    assert!(b.hash == b0.hash && b.en_passant == b0.en_passant);
    kani::cover!(ch != 0 && pin != 0);
}

// @ob id=S1.4 props=C03,C18,C04 tier=quick kind=lemma fn="spec: s_check_pin,s_attacked" desc="code-independent, kings not adjacent: the checkers set of s_check_pin is non-empty exactly when the king of the side to move is attacked (flood-fill definition), and it equals the set of attackers seen from the king"
#[kani::proof]
#[kani::unwind(9)]
fn spec_checkers_iff_in_check() {
    let b = any_board();
    let pos = to_pos(&b);
    // kings are never adjacent in a valid position (the side not to move would be in check)
    kani::assume(sp::s_king(pos.king_sq(0)) & sp::bit(pos.king_sq(1)) == 0);
    let (ch, _pin) = sp::s_check_pin(&pos);
    assert!((ch != 0) == sp::s_in_check(&pos, pos.stm));
    assert!(ch == sp::s_attackers(&pos, pos.king_sq(pos.stm), 1 - pos.stm, pos.occ()));
}

// @ob id=O3.canary props=C03 tier=quick kind=canary fn="Board::piece_on" desc="deliberately false: piece_on never returns a queen — must FAIL"
#[kani::proof]
fn c03_canary() {
    let b = any_board();
    assert!(b.piece_on(any_square()) != Some(Piece::Queen));
}
