// k_board.rs — contracts on src/board.rs (C02, C03, C05, C07, C08, C09, C18).  Child module of `board`
// (needed to read and build the private fields).
use super::*;
use crate::vhelp::*;
use crate::vspec as sp;

pub(crate) fn to_pos(b: &Board) -> sp::Pos {
    sp::Pos {
        pieces: [b.pieces[0].0, b.pieces[1].0, b.pieces[2].0, b.pieces[3].0, b.pieces[4].0, b.pieces[5].0],
        colors: [b.color_combined[0].0, b.color_combined[1].0],
        stm: b.side_to_move.to_index(),
        rights: [b.castle_rights[0].to_index() as u8, b.castle_rights[1].to_index() as u8],
        ep: match b.en_passant {
            Some(s) => Some(s.to_int()),
            None => None,
        },
    }
}

pub(crate) fn any_rights() -> CastleRights {
    let r: u8 = kani::any();
    kani::assume(r < 4);
    CastleRights::from_index(r as usize)
}

pub(crate) fn any_ep() -> Option<Square> {
    if kani::any() {
        Some(any_square())
    } else {
        None
    }
}

/// arbitrary bit patterns in every field (only the enum/Square type invariants hold)
pub(crate) fn any_raw_board() -> Board {
    let p: [u64; 6] = kani::any();
    let c: [u64; 2] = kani::any();
    Board {
        pieces: [BitBoard(p[0]), BitBoard(p[1]), BitBoard(p[2]), BitBoard(p[3]), BitBoard(p[4]), BitBoard(p[5])],
        color_combined: [BitBoard(c[0]), BitBoard(c[1])],
        combined: BitBoard(kani::any()),
        side_to_move: any_color(),
        castle_rights: [any_rights(), any_rights()],
        pinned: BitBoard(kani::any()),
        checkers: BitBoard(kani::any()),
        hash: kani::any(),
        en_passant: any_ep(),
    }
}

/// occupancy part of the representation invariant: piece boards pairwise disjoint, colours disjoint,
/// combined = union of pieces = union of colours, exactly one king per side.  checkers / pinned / hash
/// are arbitrary; castle rights and en-passant arbitrary.
pub(crate) fn any_board() -> Board {
    let mut b = any_raw_board();
    let pos = to_pos(&b);
    kani::assume(sp::s_consistent(&pos));
    kani::assume(sp::s_one_king_each(&pos));
    b.combined = BitBoard(pos.occ());
    b
}

/// as `any_board`, with the king of colour `kc` fixed on `ksq`
pub(crate) fn any_board_king(kc: usize, ksq: u8) -> Board {
    let b = any_board();
    kani::assume(b.pieces[5].0 & b.color_combined[kc].0 == 1u64 << ksq);
    b
}

pub(crate) fn same_placement(a: &Board, b: &Board) -> bool {
    a.pieces == b.pieces && a.color_combined == b.color_combined && a.combined == b.combined
}

// ------------------------------------------------------------------------------------------ accessors

// @ob id=O3.3a props=C03 also=C08 tier=quick kind=proof fn="Board::xor" desc="xor(piece,{sq},colour) toggles exactly bit sq in pieces[piece], color_combined[colour] and combined, toggles exactly the Zobrist key of (piece,sq,colour) in the hash, and changes nothing else; for every raw board state, piece, square, colour; unchecked indices in bounds"
#[kani::proof]
fn c03_xor_frame() {
    let b0 = any_raw_board();
    let mut b = b0;
    let (p, c, s) = (any_piece(), any_color(), any_square());
    b.xor(p, BitBoard::from_square(s), c);
    let bit = 1u64 << s.to_int();
    let mut i = 0;
    while i < 6 {
        assert!(b.pieces[i].0 == if i == p.to_index() { b0.pieces[i].0 ^ bit } else { b0.pieces[i].0 });
        i += 1;
    }
    assert!(b.color_combined[c.to_index()].0 == b0.color_combined[c.to_index()].0 ^ bit);
    assert!(b.color_combined[1 - c.to_index()] == b0.color_combined[1 - c.to_index()]);
    assert!(b.combined.0 == b0.combined.0 ^ bit);
    assert!(b.hash == b0.hash ^ Zobrist::piece(p, s, c));
    assert!(b.side_to_move == b0.side_to_move && b.castle_rights == b0.castle_rights && b.pinned == b0.pinned);
    assert!(b.checkers == b0.checkers && b.en_passant == b0.en_passant);
}

// @ob id=O3.3b props=C03 tier=quick kind=proof fn="Board::piece_on,Board::color_on,Board::king_square" desc="on every board satisfying the occupancy invariant: piece_on(sq) is the unique piece type whose board has bit sq (None iff combined lacks it), color_on likewise for colours, king_square(c) is the square of c's king; all 64 squares"
#[kani::proof]
fn c03_square_queries() {
    let b = any_board();
    let pos = to_pos(&b);
    let s = any_sq_u8();
    let sq = Square::new(s);
    let want_p = pos.piece_at(s);
    match b.piece_on(sq) {
        None => assert!(want_p.is_none() && b.combined.0 & (1u64 << s) == 0),
        Some(p) => assert!(want_p == Some(p.to_index())),
    }
    match b.color_on(sq) {
        None => assert!(pos.color_at(s).is_none()),
        Some(c) => assert!(pos.color_at(s) == Some(c.to_index())),
    }
    assert!(b.piece_on(sq).is_some() == b.color_on(sq).is_some());
    let c = any_color();
    let k = b.king_square(c);
    assert!(b.pieces[5].0 & b.color_combined[c.to_index()].0 == 1u64 << k.to_int());
    assert!(b.piece_on(k) == Some(Piece::King) && b.color_on(k) == Some(c));
}

// @ob id=O3.3c props=C03 tier=quick kind=proof fn="Board::pieces,Board::color_combined,Board::combined,Board::castle_rights,Board::my_castle_rights,Board::their_castle_rights,Board::side_to_move,Board::en_passant,Board::pinned,Board::checkers" desc="every accessor returns exactly the field it names (unchecked index in bounds for all pieces/colours); my/their castle rights are those of side to move / the other side"
#[kani::proof]
fn c03_accessors() {
    let b = any_raw_board();
    let (p, c) = (any_piece(), any_color());
    assert!(*b.pieces(p) == b.pieces[p.to_index()]);
    assert!(*b.color_combined(c) == b.color_combined[c.to_index()]);
    assert!(*b.combined() == b.combined);
    assert!(b.castle_rights(c) == b.castle_rights[c.to_index()]);
    assert!(b.my_castle_rights() == b.castle_rights[b.side_to_move.to_index()]);
    assert!(b.their_castle_rights() == b.castle_rights[1 - b.side_to_move.to_index()]);
    assert!(b.side_to_move() == b.side_to_move);
    assert!(b.en_passant() == b.en_passant);
    assert!(*b.pinned() == b.pinned && *b.checkers() == b.checkers);
}

// @ob id=O3.4 props=C03 also=C08 tier=quick kind=proof fn="PartialEq for Board (derived)" desc="determinacy: two boards are == exactly when placement, side, rights, en-passant, checkers, pinned and hash field agree; hence two boards that satisfy the representation invariant (checkers/pinned/hash are functions of the position) and show the same position are =="
#[kani::proof]
fn c03_eq_determinacy() {
    let a = any_raw_board();
    let b = any_raw_board();
    let fields = same_placement(&a, &b)
        && a.side_to_move == b.side_to_move
        && a.castle_rights == b.castle_rights
        && a.en_passant == b.en_passant
        && a.checkers == b.checkers
        && a.pinned == b.pinned
        && a.hash == b.hash;
    assert!((a == b) == fields);
}

// ------------------------------------------------------------------------------------------ check / pin

// @ob id=O3.1 props=C03,C06 also=C18,C07 tier=quick kind=proof gen=king qsel=4 unwind=30 weight=light stubs=geom fn="Board::update_pin_info" desc="for the fixed king square and EVERY placement satisfying the occupancy invariant: afterwards checkers = exactly the enemy men attacking the king and pinned = exactly the lone men between the king and an aligned enemy slider (eight ray walks from the king, first and second blocker), nothing else changes; table accessors replaced by the closed forms that O16.1/3/4/5 prove equal to them on the real tables; loop unwinding assertion on (complete for the case)"
fn c03_update_pin_info(kc: usize, ksq: u8) {
    let mut b = any_board_king(kc, ksq);
    kani::assume(b.side_to_move.to_index() == kc);
    let b0 = b;
    b.update_pin_info();
    let (ch, pin) = sp::s_check_pin(&to_pos(&b0));
    assert!(b.checkers.0 == ch);
    assert!(b.pinned.0 == pin);
    assert!(same_placement(&b, &b0) && b.side_to_move == b0.side_to_move && b.castle_rights == b0.castle_rights);
    assert!(b.hash == b0.hash && b.en_passant == b0.en_passant);
    kani::cover!(ch != 0 && pin != 0);
}

// @ob id=S1.4 props=C03 also=C18,C04 tier=quick kind=lemma cache=yes fn="spec: s_check_pin,s_attacked" desc="code-independent, kings not adjacent: the checkers set of s_check_pin is non-empty exactly when the king of the side to move is attacked (flood-fill definition), and it equals the set of attackers seen from the king"
#[kani::proof]
#[kani::unwind(9)]
fn spec_checkers_iff_in_check() {
    let b = any_board();
    let pos = to_pos(&b);
    // kings are never adjacent in a valid position (the side not to move would be in check)
    kani::assume(sp::s_king(pos.king_sq(0)) & sp::bit(pos.king_sq(1)) == 0);
    let (ch, _pin) = sp::s_check_pin(&pos);
    assert!((ch != 0) == sp::s_in_check(&pos, pos.stm));
    assert!(ch == sp::s_attackers(&pos, pos.king_sq(pos.stm), 1 - pos.stm, pos.occ()));
}

// @ob id=O3.canary props=C03 tier=quick kind=canary fn="Board::piece_on" desc="deliberately false: piece_on never returns a queen — must FAIL"
#[kani::proof]
fn c03_canary() {
    let b = any_board();
    assert!(b.piece_on(any_square()) != Some(Piece::Queen));
}

// ------------------------------------------------------------------------------------------ make_move

pub(crate) fn any_promo() -> Option<Piece> {
    let k: u8 = kani::any();
    kani::assume(k < 7);
    if k == 6 {
        None
    } else {
        Some(piece_of(k as usize))
    }
}
pub(crate) fn any_move() -> ChessMove {
    ChessMove::new(any_square(), any_square(), any_promo())
}
pub(crate) fn to_mv(m: ChessMove) -> sp::Mv {
    sp::Mv { src: m.get_source().to_int(), dst: m.get_dest().to_int(), promo: m.get_promotion().map(|p| p.to_index()) }
}
/// precondition of move application, symbolic opponent king: occupancy invariant, en-passant state consistent,
/// `m` obeys the movement rules (castling attack clauses not needed here), the destination is not the enemy king
pub(crate) fn pre_move() -> (Board, sp::Pos, ChessMove, sp::Mv) {
    let b = any_board();
    let pos = to_pos(&b);
    kani::assume(sp::s_ep_consistent(&pos));
    let m = any_move();
    let mv = to_mv(m);
    kani::assume(sp::s_pseudo_geom(&pos, &mv));
    kani::assume(mv.dst != pos.king_sq(1 - pos.stm));
    (b, pos, m, mv)
}

/// C02 postcondition, placement part: pieces, colours, combined, side, rights, en-passant upper bound, monotone material
pub(crate) fn check_placement(pos: &sp::Pos, mv: &sp::Mv, r: &Board) {
    let want = sp::s_apply(pos, mv);
    let rp = to_pos(r);
    // moved / promoted piece on the destination, captured man (incl. en passant) gone, rook jumped
    assert!(rp.pieces[0] == want.pieces[0] && rp.pieces[1] == want.pieces[1] && rp.pieces[2] == want.pieces[2]);
    assert!(rp.pieces[3] == want.pieces[3] && rp.pieces[4] == want.pieces[4] && rp.pieces[5] == want.pieces[5]);
    assert!(rp.colors[0] == want.colors[0] && rp.colors[1] == want.colors[1]);
    assert!(r.combined.0 == want.occ());
    // side to move flipped
    assert!(rp.stm == 1 - pos.stm);
    // castle rights shrink exactly by the home squares left / captured on
    assert!(rp.rights[0] == want.rights[0] && rp.rights[1] == want.rights[1]);
    // en passant recorded ONLY after a double push that lands beside an enemy pawn
    let dbl = pos.piece_at(mv.src) == Some(sp::PAWN) && (sp::rank_of(mv.src) - sp::rank_of(mv.dst)).abs() == 2;
    let d = sp::bit(mv.dst);
    let beside = (((d << 1) & sp::NOT_A) | ((d >> 1) & sp::NOT_H)) & want.pieces[sp::PAWN] & want.colors[want.stm];
    if let Some(e) = rp.ep {
        assert!(dbl && e == mv.dst && beside != 0);
    }
    // material and rights never grow (C05), stated structurally (no cardinality reasoning needed):
    // the opponent's men and pawns only disappear; the mover's men are the old ones with the source square(s)
    // replaced by as many destination squares (1, or 2 when castling); the mover's pawns gain at most the
    // destination square and then lose the source square.  |A - x + y| = |A| for x in A, y not in A.
    let me = pos.stm;
    let them = 1 - me;
    assert!(rp.colors[them] & !pos.colors[them] == 0);
    assert!((rp.pieces[0] & rp.colors[them]) & !(pos.pieces[0] & pos.colors[them]) == 0);
    let gained = rp.colors[me] & !pos.colors[me];
    let lost = pos.colors[me] & !rp.colors[me];
    let s = sp::bit(mv.src);
    if sp::s_is_castle(pos, mv) {
        assert!(gained & d != 0 && lost & s != 0 && (gained & !d).count_ones() == 1 && (lost & !s).count_ones() == 1);
    } else {
        assert!(gained == d && lost == s);
    }
    let pg = (rp.pieces[0] & rp.colors[me]) & !(pos.pieces[0] & pos.colors[me]);
    let pl = (pos.pieces[0] & pos.colors[me]) & !(rp.pieces[0] & rp.colors[me]);
    assert!(pg == 0 || (pg == d && pl == s));
    assert!(rp.rights[0] & !pos.rights[0] == 0 && rp.rights[1] & !pos.rights[1] == 0);
}

/// en-passant lower bound: whenever the pushed pawn can LEGALLY be captured en passant, the opportunity is recorded
pub(crate) fn check_ep_lower(pos: &sp::Pos, mv: &sp::Mv, r: &Board) {
    let want = sp::s_apply(pos, mv);
    let rp = to_pos(r);
    let d = sp::bit(mv.dst);
    let beside = (((d << 1) & sp::NOT_A) | ((d >> 1) & sp::NOT_H)) & want.pieces[sp::PAWN] & want.colors[want.stm];
    if rp.ep.is_none() && beside != 0 {
        let mut q = want;
        q.ep = Some(mv.dst);
        let behind = if pos.stm == sp::WHITE { mv.dst - 8 } else { mv.dst + 8 };
        if mv.dst & 7 != 0 && sp::has(beside, mv.dst - 1) {
            assert!(!sp::s_legal(&q, &sp::Mv { src: mv.dst - 1, dst: behind, promo: None }));
        }
        if mv.dst & 7 != 7 && sp::has(beside, mv.dst + 1) {
            assert!(!sp::s_legal(&q, &sp::Mv { src: mv.dst + 1, dst: behind, promo: None }));
        }
    }
}

fn set_probe() -> (usize, u8, usize, u64) {
    let (pp, ps, pc, pk): (usize, u8, usize, u64) = (kani::any(), kani::any(), kani::any(), kani::any());
    kani::assume(pp < 6 && ps < 64 && pc < 2);
    unsafe {
        crate::vstubs::PROBE = (pp, ps, pc, pk);
    }
    (pp, ps, pc, pk)
}
/// hash coordinate check: with every key except the probed one set to 0, the hash field must change by the probed
/// key exactly when the probed (piece,square,colour) fact changed between the two positions
fn check_hash_coordinate(h0: u64, pos: &sp::Pos, r: &Board, probe: (usize, u8, usize, u64)) {
    let (pp, ps, pc, pk) = probe;
    let rp = to_pos(r);
    let before = pos.pieces[pp] & pos.colors[pc] & sp::bit(ps) != 0;
    let after = rp.pieces[pp] & rp.colors[pc] & sp::bit(ps) != 0;
    assert!(r.hash == h0 ^ (if before != after { pk } else { 0 }));
}

// @ob id=O2.1a props=C02,C05,C08 tier=quick kind=proof weight=light fn="Board::make_move_new" desc="SYMBOLIC opponent king (all 64 squares at once), every placement (occupancy invariant, consistent en-passant state) and every move obeying the movement rules: result pieces/colours/combined/side/castle-rights equal the rule-prescribed successor s_apply; en passant recorded only after a double push beside an enemy pawn; men, pawns and rights never grow; &self untouched. Frame assumption of this quick form: the slider scan (fed by get_*_rays, here replaced by EMPTY so the loop vanishes) writes only checkers/pinned — discharged by O2.1a-havoc in the thorough tier"
#[kani::proof]
#[kani::unwind(9)]
#[kani::stub(crate::magic::get_bishop_rays, crate::vstubs::no_rays)]
#[kani::stub(crate::magic::get_rook_rays, crate::vstubs::no_rays)]
#[kani::stub(crate::magic::get_knight_moves, crate::vstubs::knight_moves_cf)]
#[kani::stub(crate::magic::get_pawn_attacks, crate::vstubs::pawn_attacks_cf)]
fn c02_mmn_placement() {
    let (b, pos, m, mv) = pre_move();
    let b0 = b;
    let r = b.make_move_new(m);
    assert!(b == b0);
    check_placement(&pos, &mv, &r);
    kani::cover!(sp::s_is_castle(&pos, &mv));
    kani::cover!(sp::s_is_ep_capture(&pos, &mv));
    kani::cover!(mv.promo.is_some());
}

// @ob id=O2.1a-havoc props=C02,C05 tier=thorough kind=proof weight=heavy fn="Board::make_move_new" desc="same contract as O2.1a with get_rook_rays/get_bishop_rays abstracted by HAVOC (any set of <= 14 squares, a property O16.3s proves of the real tables): sound for every king square, discharges the frame assumption of the quick form"
#[kani::proof]
#[kani::unwind(30)]
#[kani::stub(crate::magic::between, crate::vstubs::between_cf)]
#[kani::stub(crate::magic::get_bishop_rays, crate::vstubs::havoc_rays)]
#[kani::stub(crate::magic::get_rook_rays, crate::vstubs::havoc_rays)]
#[kani::stub(crate::magic::get_knight_moves, crate::vstubs::knight_moves_cf)]
#[kani::stub(crate::magic::get_pawn_attacks, crate::vstubs::pawn_attacks_cf)]
fn c02_mmn_placement_havoc() {
    let (b, pos, m, mv) = pre_move();
    let r = b.make_move_new(m);
    check_placement(&pos, &mv, &r);
}

// @ob id=O2.1h props=C02,C08 tier=quick kind=proof weight=light fn="Board::make_move_new" desc="hash, coordinate-wise: for EVERY key coordinate (piece,square,colour) — all other keys zeroed by a probe stand-in for Zobrist::piece — the hash field changes by that key exactly when that (piece,square,colour) fact differs between source and result position; i.e. the incremental hash stays the XOR of the keys of the placement (path independence), for every placement, king square and rule-obeying move. Same frame assumption as O2.1a"
#[kani::proof]
#[kani::unwind(9)]
#[kani::stub(crate::magic::get_bishop_rays, crate::vstubs::no_rays)]
#[kani::stub(crate::magic::get_rook_rays, crate::vstubs::no_rays)]
#[kani::stub(crate::magic::get_knight_moves, crate::vstubs::knight_moves_cf)]
#[kani::stub(crate::magic::get_pawn_attacks, crate::vstubs::pawn_attacks_cf)]
#[kani::stub(crate::zobrist::Zobrist::piece, crate::vstubs::zobrist_probe)]
fn c02_mmn_hash() {
    let (b, pos, m, _mv) = pre_move();
    let probe = set_probe();
    let r = b.make_move_new(m);
    check_hash_coordinate(b.hash, &pos, &r, probe);
}

// @ob id=O2.1e props=C02 also=C06 tier=quick kind=proof weight=light fn="Board::make_move_new,Board::set_ep" desc="en-passant lower bound: after any double pawn push, if a pawn of the side now to move could LEGALLY capture the pushed pawn en passant (own king not exposed afterwards — flood-fill attack spec), the opportunity is recorded; symbolic king, all placements. Same frame assumption as O2.1a"
#[kani::proof]
#[kani::unwind(9)]
#[kani::stub(crate::magic::get_bishop_rays, crate::vstubs::no_rays)]
#[kani::stub(crate::magic::get_rook_rays, crate::vstubs::no_rays)]
#[kani::stub(crate::magic::get_knight_moves, crate::vstubs::knight_moves_cf)]
#[kani::stub(crate::magic::get_pawn_attacks, crate::vstubs::pawn_attacks_cf)]
fn c02_mmn_ep_lower() {
    let (b, pos, m, mv) = pre_move();
    kani::assume(pos.piece_at(mv.src) == Some(sp::PAWN) && (sp::rank_of(mv.src) - sp::rank_of(mv.dst)).abs() == 2);
    let r = b.make_move_new(m);
    check_ep_lower(&pos, &mv, &r);
    kani::cover!(r.en_passant.is_some());
}

/// precondition for the direct-check clause, SYMBOLIC opponent king: as pre_move, plus the opponent is not attacked by a
/// knight or pawn of the mover before the move (the side not to move is never in check)
pub(crate) fn pre_move_direct() -> (Board, sp::Pos, ChessMove, sp::Mv) {
    let (b, pos, m, mv) = pre_move();
    let me = pos.stm;
    let k = pos.king_sq(1 - me);
    kani::assume(sp::s_knight(k) & pos.pieces[1] & pos.colors[me] == 0);
    kani::assume(sp::s_pawn_att(k, 1 - me) & pos.pieces[0] & pos.colors[me] == 0);
    (b, pos, m, mv)
}
/// what the statements before the slider scan leave behind (observed through the scan-free run): the scan is anchored on
/// the opponent king; pinned is empty; checkers are exactly the mover's knights and pawns attacking that king
pub(crate) fn check_direct(r: &Board) {
    let rp = to_pos(r);
    if !crate::vstubs::under_stubs() {
        // native replay of a counterexample (no stand-ins, the real scan ran): the stand-in-free statement
        let (ch, pin) = sp::s_check_pin(&rp);
        assert!(r.checkers.0 == ch && r.pinned.0 == pin);
        return;
    }
    let k = rp.king_sq(rp.stm);
    let e = rp.colors[1 - rp.stm];
    unsafe {
        assert!(crate::vstubs::RAY_ARGS.0 == k && crate::vstubs::RAY_ARGS.1 == k);
    }
    assert!(r.pinned.0 == 0);
    assert!(r.checkers.0 == (sp::s_knight(k) & e & rp.pieces[1]) ^ (sp::s_pawn_att(k, rp.stm) & e & rp.pieces[0]));
}

// @ob id=O2.1c props=C02,C03,C04,C01,C05 tier=quick kind=proof weight=light fn="Board::make_move_new" desc="SYMBOLIC opponent king (all 64 squares at once), the part of make_move_new BEFORE the slider scan (observed by running with recording EMPTY-ray stand-ins, so the scan has no iterations): both ray accessors are asked about the opponent king's square; pinned is empty; checkers are exactly the mover's knights and pawns attacking that king in the result position (moved knight, knight promotion, pawn push/capture/en-passant capture). With the Verus tail proof O2.1t (scan adds the pointwise slider contributions for EVERY king square) and lemma S1.6 (pointwise == eight ray walks) the result's checkers/pinned equal the from-scratch spec for every king square"
#[kani::proof]
#[kani::unwind(9)]
#[kani::stub(crate::magic::get_bishop_rays, crate::vstubs::rec_bishop_rays)]
#[kani::stub(crate::magic::get_rook_rays, crate::vstubs::rec_rook_rays)]
#[kani::stub(crate::vstubs::under_stubs, crate::vstubs::under_stubs_yes)]
#[kani::stub(crate::magic::get_knight_moves, crate::vstubs::knight_moves_cf)]
#[kani::stub(crate::magic::get_pawn_attacks, crate::vstubs::pawn_attacks_cf)]
fn c02_mmn_direct_checks() {
    let (b, _pos, m, _mv) = pre_move_direct();
    let r = b.make_move_new(m);
    check_direct(&r);
    kani::cover!(r.checkers.0 != 0);
}

// @ob id=O2.2c props=C02,C05 also=C03 tier=quick kind=proof weight=light fn="Board::make_move" desc="second entry point, any prior content of the output board: same pre-scan contract as O2.1c (scan anchored on the opponent king, pinned empty, direct knight/pawn checks exact), symbolic king; composes with the Verus tail proof O2.2t"
#[kani::proof]
#[kani::unwind(9)]
#[kani::stub(crate::magic::get_bishop_rays, crate::vstubs::rec_bishop_rays)]
#[kani::stub(crate::magic::get_rook_rays, crate::vstubs::rec_rook_rays)]
#[kani::stub(crate::vstubs::under_stubs, crate::vstubs::under_stubs_yes)]
#[kani::stub(crate::magic::get_knight_moves, crate::vstubs::knight_moves_cf)]
#[kani::stub(crate::magic::get_pawn_attacks, crate::vstubs::pawn_attacks_cf)]
fn c02_mm_direct_checks() {
    let (b, _pos, m, _mv) = pre_move_direct();
    let mut out = any_raw_board();
    b.make_move(m, &mut out);
    check_direct(&out);
}

/// precondition for the check/pin clause, opponent king (colour kc) fixed on ksq: as pre_move, plus no knight or
/// pawn of the mover already attacks that king (the opponent is not in check before the move)
pub(crate) fn pre_move_king(kc: usize, ksq: u8) -> (Board, sp::Pos, ChessMove, sp::Mv) {
    let b = any_board_king(kc, ksq);
    let me = 1 - kc;
    kani::assume(b.side_to_move.to_index() == me);
    let pos = to_pos(&b);
    kani::assume(sp::s_ep_consistent(&pos));
    let m = any_move();
    let mv = to_mv(m);
    kani::assume(sp::s_pseudo_geom(&pos, &mv));
    kani::assume(mv.dst != ksq);
    kani::assume(sp::s_knight(ksq) & pos.pieces[1] & pos.colors[me] == 0);
    kani::assume(sp::s_pawn_att(ksq, kc) & pos.pieces[0] & pos.colors[me] == 0);
    (b, pos, m, mv)
}

// @ob id=O2.1b props=C02,C03,C04,C01 tier=quick kind=proof gen=king qsel=4 unwind=30 weight=light stubs=geom fn="Board::make_move_new" desc="opponent king fixed on the instance square: for every placement and rule-obeying move, the incrementally computed checkers/pinned of the result equal the from-scratch eight-ray-walk spec of the result position (C03: check and pin information matches the position after every move)"
fn c02_mmn_checkpin(kc: usize, ksq: u8) {
    let (b, _pos, m, _mv) = pre_move_king(kc, ksq);
    let r = b.make_move_new(m);
    let (ch, pin) = sp::s_check_pin(&to_pos(&r));
    assert!(r.checkers.0 == ch);
    assert!(r.pinned.0 == pin);
    kani::cover!(ch != 0);
    kani::cover!(pin != 0);
}

// @ob id=O2.2a props=C02,C05,C08 tier=quick kind=proof weight=light fn="Board::make_move" desc="second entry point, ANY prior content of the output board: same placement/side/rights/en-passant/material contract as O2.1a (symbolic king); &self untouched"
#[kani::proof]
#[kani::unwind(9)]
#[kani::stub(crate::magic::get_bishop_rays, crate::vstubs::no_rays)]
#[kani::stub(crate::magic::get_rook_rays, crate::vstubs::no_rays)]
#[kani::stub(crate::magic::get_knight_moves, crate::vstubs::knight_moves_cf)]
#[kani::stub(crate::magic::get_pawn_attacks, crate::vstubs::pawn_attacks_cf)]
fn c02_mm_placement() {
    let (b, pos, m, mv) = pre_move();
    let b0 = b;
    let mut out = any_raw_board();
    b.make_move(m, &mut out);
    assert!(b == b0);
    check_placement(&pos, &mv, &out);
}

// @ob id=O2.2h props=C02,C08 tier=quick kind=proof weight=light fn="Board::make_move" desc="second entry point: hash coordinate contract as O2.1h, any prior output board"
#[kani::proof]
#[kani::unwind(9)]
#[kani::stub(crate::magic::get_bishop_rays, crate::vstubs::no_rays)]
#[kani::stub(crate::magic::get_rook_rays, crate::vstubs::no_rays)]
#[kani::stub(crate::magic::get_knight_moves, crate::vstubs::knight_moves_cf)]
#[kani::stub(crate::magic::get_pawn_attacks, crate::vstubs::pawn_attacks_cf)]
#[kani::stub(crate::zobrist::Zobrist::piece, crate::vstubs::zobrist_probe)]
fn c02_mm_hash() {
    let (b, pos, m, _mv) = pre_move();
    let probe = set_probe();
    let mut out = any_raw_board();
    b.make_move(m, &mut out);
    check_hash_coordinate(b.hash, &pos, &out, probe);
}

// @ob id=O2.2e props=C02 tier=quick kind=proof weight=light fn="Board::make_move,Board::make_move_new" desc="both entry points agree on the en-passant field EXACTLY (the band of O2.1a/O2.1e leaves freedom; equality of results needs the same choice), symbolic king, relational on the real code, any prior output board"
#[kani::proof]
#[kani::unwind(9)]
#[kani::stub(crate::magic::get_bishop_rays, crate::vstubs::no_rays)]
#[kani::stub(crate::magic::get_rook_rays, crate::vstubs::no_rays)]
#[kani::stub(crate::magic::get_knight_moves, crate::vstubs::knight_moves_cf)]
#[kani::stub(crate::magic::get_pawn_attacks, crate::vstubs::pawn_attacks_cf)]
fn c02_mm_same_ep() {
    let (b, _pos, m, _mv) = pre_move();
    let mut out = any_raw_board();
    b.make_move(m, &mut out);
    let r = b.make_move_new(m);
    assert!(out.en_passant == r.en_passant);
}

// @ob id=O2.2b props=C02 also=C03 tier=quick kind=proof gen=king qsel=4 unwind=30 weight=light stubs=geom fn="Board::make_move" desc="second entry point, opponent king fixed: checkers/pinned of the output board equal the from-scratch spec of the output position, any prior output board. Together with O2.2a/h/e and O2.1a/h/b: both entry points produce == results"
fn c02_mm_checkpin(kc: usize, ksq: u8) {
    let (b, _pos, m, _mv) = pre_move_king(kc, ksq);
    let mut out = any_raw_board();
    b.make_move(m, &mut out);
    let (ch, pin) = sp::s_check_pin(&to_pos(&out));
    assert!(out.checkers.0 == ch);
    assert!(out.pinned.0 == pin);
}

// @ob id=O2.canary props=C02 tier=quick kind=canary fn="Board::make_move_new" desc="deliberately false: a move never changes the castle rights — must FAIL"
#[kani::proof]
#[kani::unwind(9)]
#[kani::stub(crate::magic::get_bishop_rays, crate::vstubs::no_rays)]
#[kani::stub(crate::magic::get_rook_rays, crate::vstubs::no_rays)]
fn c02_canary() {
    let (b, _pos, m, _mv) = pre_move();
    let r = b.make_move_new(m);
    assert!(r.castle_rights == b.castle_rights);
}

// ------------------------------------------------------------------------------------------ null move (C18)

/// the contract of Board::update_pin_info (O3.1) as an executable stand-in
pub(crate) fn upi_spec(b: &mut Board) {
    let (c, p) = sp::s_check_pin(&to_pos(b));
    b.checkers = BitBoard(c);
    b.pinned = BitBoard(p);
}

// @ob id=O18.1 props=C18 also=C08 tier=quick kind=proof weight=light fn="Board::null_move" desc="for every placement (occupancy invariant, kings not adjacent, checkers field = attackers of the mover's king), with or without en-passant state: null_move is refused exactly when the side to move is in check (flood-fill attack spec); otherwise the result has identical placement, castle rights and hash field, the other side to move, no en-passant state, and checkers/pinned equal to the from-scratch spec of the RESULT position; the source board is untouched. The callee update_pin_info is used through its contract O3.1 (stand-in upi_spec)"
#[kani::proof]
#[kani::unwind(9)]
#[kani::stub(crate::board::Board::update_pin_info, upi_spec)]
fn c18_null_move() {
    let b = any_board();
    let pos = to_pos(&b);
    kani::assume(sp::s_king(pos.king_sq(0)) & sp::bit(pos.king_sq(1)) == 0);
    let (ch, _pin) = sp::s_check_pin(&pos);
    kani::assume(b.checkers.0 == ch);
    let b0 = b;
    let r = b.null_move();
    assert!(b == b0);
    let in_check = sp::s_in_check(&pos, pos.stm);
    assert!(r.is_none() == in_check);
    if let Some(r) = r {
        assert!(same_placement(&r, &b));
        assert!(r.castle_rights[0] == b.castle_rights[0] && r.castle_rights[1] == b.castle_rights[1]);
        assert!(r.hash == b.hash);
        assert!(r.side_to_move == !b.side_to_move);
        assert!(r.en_passant.is_none());
        let (c2, p2) = sp::s_check_pin(&to_pos(&r));
        assert!(r.checkers.0 == c2 && r.pinned.0 == p2);
    }
    kani::cover!(in_check);
    kani::cover!(!in_check && b.en_passant.is_some());
}

// @ob id=O18.canary props=C18 tier=quick kind=canary fn="Board::null_move" desc="deliberately false: null_move keeps the en-passant square — must FAIL"
#[kani::proof]
#[kani::unwind(9)]
#[kani::stub(crate::board::Board::update_pin_info, upi_spec)]
fn c18_canary() {
    let b = any_board();
    if let Some(r) = b.null_move() {
        assert!(r.en_passant == b.en_passant);
    }
}

// ------------------------------------------------------------------------------------------ hash (C08, C09)

// @ob id=O8.1 props=C08 tier=quick kind=proof fn="Board::get_hash" desc="get_hash reads nothing but the incremental hash field, the en-passant FILE, both castle rights and the side to move: two boards (any raw content, real key tables) that agree on these yield the same hash, whatever their other fields hold — with the representation invariant (hash field = XOR of the keys of the placement, kept by xor/make_move/null_move/try_from obligations) the hash is a function of the position"
#[kani::proof]
fn c08_get_hash_frame() {
    let a = any_raw_board();
    let b = any_raw_board();
    kani::assume(a.hash == b.hash && a.side_to_move == b.side_to_move);
    kani::assume(a.castle_rights[0] == b.castle_rights[0] && a.castle_rights[1] == b.castle_rights[1]);
    let fa = a.en_passant.map(|s| s.get_file().to_index());
    let fb = b.en_passant.map(|s| s.get_file().to_index());
    kani::assume(fa == fb);
    assert!(a.get_hash() == b.get_hash());
}

struct Rec {
    n: usize,
    bytes: [u8; 16],
}
impl std::hash::Hasher for Rec {
    fn finish(&self) -> u64 {
        0
    }
    fn write(&mut self, b: &[u8]) {
        let mut i = 0;
        while i < b.len() {
            if self.n < 16 {
                self.bytes[self.n] = b[i];
            }
            self.n += 1;
            i += 1;
        }
    }
}

// @ob id=O8.2 props=C08 tier=quick kind=proof fn="Hash for Board" desc="the std Hash implementation feeds exactly the 8 bytes of the incremental hash field and nothing else: boards that are == feed identical bytes (Hash consistent with Eq), for every raw board"
#[kani::proof]
#[kani::unwind(18)]
fn c08_hash_impl() {
    use std::hash::Hash;
    let a = any_raw_board();
    let mut h = Rec { n: 0, bytes: [0; 16] };
    a.hash(&mut h);
    assert!(h.n == 8);
    let le = a.hash.to_ne_bytes();
    let mut i = 0;
    while i < 8 {
        assert!(h.bytes[i] == le[i]);
        i += 1;
    }
}

// @ob id=O8.canary props=C08 tier=quick kind=canary fn="Board::get_hash" desc="deliberately false: get_hash ignores the side to move — must FAIL"
#[kani::proof]
fn c08_canary() {
    let a = any_raw_board();
    let mut b = a;
    b.side_to_move = !a.side_to_move;
    assert!(a.get_hash() == b.get_hash());
}

// @ob id=O9.2 props=C09 tier=quick kind=proof fn="Board::get_hash" desc="single-component variants hash differently (real key tables): (a) one square's content differs (man added, removed, retyped or recoloured) with the hash field following the placement; (b) side to move differs (no en-passant state); (c) one side's castle rights differ; (d) en-passant file differs or is present vs absent — for every raw board and every choice of the varied component"
#[kani::proof]
fn c09_single_component() {
    let a = any_raw_board();
    let mut b = a;
    let which: u8 = kani::any();
    kani::assume(which < 4);
    if which == 0 {
        // content of one square: old = (p1,c1) or empty, new = (p2,c2) or empty, different
        let s = any_square();
        let (e1, e2): (bool, bool) = (kani::any(), kani::any());
        let (p1, c1, p2, c2) = (any_piece(), any_color(), any_piece(), any_color());
        kani::assume(!(e1 && e2));
        kani::assume(e1 || e2 || p1 != p2 || c1 != c2);
        let k1 = if e1 { 0 } else { Zobrist::piece(p1, s, c1) };
        let k2 = if e2 { 0 } else { Zobrist::piece(p2, s, c2) };
        b.hash = a.hash ^ k1 ^ k2;
    } else if which == 1 {
        kani::assume(a.en_passant.is_none());
        b.side_to_move = !a.side_to_move;
    } else if which == 2 {
        let c = any_color();
        let r = any_rights();
        kani::assume(r != a.castle_rights[c.to_index()]);
        b.castle_rights[c.to_index()] = r;
    } else {
        let e = any_ep();
        let fa = a.en_passant.map(|s| s.get_file().to_index());
        let fb = e.map(|s| s.get_file().to_index());
        kani::assume(fa != fb);
        b.en_passant = e;
    }
    assert!(a.get_hash() != b.get_hash());
}

// @ob id=O9.3 props=C09 tier=quick kind=proof fn="Board::get_hash" desc="the non-placement part of the position as a whole is separated: two boards with the same incremental hash field that differ in ANY way in (side to move, white rights, black rights, en-passant file or none) — one component or several at once — hash differently, on the real key tables (all 288 x 288 combinations)"
#[kani::proof]
fn c09_state_components_injective() {
    let a = any_raw_board();
    let mut b = a;
    b.side_to_move = any_color();
    b.castle_rights = [any_rights(), any_rights()];
    b.en_passant = any_ep();
    // en-passant squares are compared by file (the only part the position identity and the hash use)
    let fa = a.en_passant.map(|s| s.get_file().to_index());
    let fb = b.en_passant.map(|s| s.get_file().to_index());
    kani::assume(a.side_to_move != b.side_to_move || a.castle_rights[0] != b.castle_rights[0] || a.castle_rights[1] != b.castle_rights[1] || fa != fb);
    assert!(a.get_hash() != b.get_hash());
}

// ------------------------------------------------------------------------------------------ validation (C05, C07)

pub(crate) fn lockstep(b: &Board) -> bool {
    (b.color_combined[0].0 | b.color_combined[1].0) == (b.pieces[0].0 | b.pieces[1].0 | b.pieces[2].0 | b.pieces[3].0 | b.pieces[4].0 | b.pieces[5].0)
}

/// the contract of Board::is_sane (O5.1) as an executable stand-in
pub(crate) fn is_sane_spec(b: &Board) -> bool {
    sp::s_sane(&to_pos(b), b.combined.0)
}

// @ob id=O5.1 props=C05,C07 tier=quick kind=proof weight=light fn="Board::is_sane" desc="for EVERY board whose colour boards cover exactly the piece boards (the lock-step invariant Board::xor maintains; all other fields arbitrary bit patterns, symbolic kings): is_sane returns true exactly when the bitboards are consistent, there is one king per side, no side has more than 16 men, a recorded en-passant square holds a pawn of the side that just moved, the side not to move is not in check (flood-fill attack spec; kings adjacent counts as attacked), and every castle right is backed by king and rook on their home squares; never panics, all unchecked reads in bounds. update_pin_info is used through its contract O3.1"
#[kani::proof]
#[kani::unwind(9)]
#[kani::stub(crate::board::Board::update_pin_info, upi_spec)]
#[kani::stub(crate::magic::get_king_moves, crate::vstubs::king_moves_cf)]
#[kani::stub(crate::magic::get_rank, crate::vstubs::rank_cf)]
#[kani::stub(crate::magic::get_file, crate::vstubs::file_cf)]
fn c05_is_sane_exact() {
    let b = any_raw_board();
    // lock-step invariant of every board the API can construct (all placement changes go through Board::xor,
    // O3.3a): a square carries a colour exactly when it carries a piece.  Everything else is_sane checks itself.
    kani::assume(lockstep(&b));
    let r = b.is_sane();
    assert!(r == is_sane_spec(&b));
    kani::cover!(r);
    kani::cover!(r && b.en_passant.is_some());
}

// @ob id=O7.4 props=C07 also=C01 tier=quick kind=proof weight=light fn="Board::is_sane,MoveList capacity" desc="every board the gatekeeper accepts leaves room in the fixed-capacity move list: men of either side + 2 (one slot per man plus at most two en-passant captures — the slot bound the move-generation obligations rely on for every push_unchecked) never exceeds the real capacity of NoDrop<ArrayVec<SquareAndBitBoard,N>>; for EVERY raw board"
#[kani::proof]
#[kani::unwind(9)]
#[kani::stub(crate::board::Board::update_pin_info, upi_spec)]
#[kani::stub(crate::magic::get_king_moves, crate::vstubs::king_moves_cf)]
#[kani::stub(crate::magic::get_rank, crate::vstubs::rank_cf)]
#[kani::stub(crate::magic::get_file, crate::vstubs::file_cf)]
fn c07_movelist_room() {
    let b = any_raw_board();
    kani::assume(lockstep(&b));
    if b.is_sane() {
        let ml: crate::movegen::MoveList = nodrop::NoDrop::new(arrayvec::ArrayVec::new());
        let cap = ml.capacity() as u32;
        assert!(b.color_combined[0].popcnt() + 2 <= cap);
        assert!(b.color_combined[1].popcnt() + 2 <= cap);
    }
}

// @ob id=S1.5 props=C07,C05 tier=quick kind=lemma cache=yes fn="spec: s_valid,s_sane" desc="code-independent: every valid chess position (the quantifier of C01/C05: one king each, <=16 men, <=8 pawns, no pawn on rank 1/8, side not to move not in check, rights backed, en-passant state consistent) satisfies the gatekeeper specification s_sane — so validation succeeds for every valid position once is_sane == s_sane (O5.1)"
#[kani::proof]
#[kani::unwind(9)]
fn spec_valid_implies_sane() {
    let b = any_raw_board();
    let pos = to_pos(&b);
    kani::assume(sp::s_valid(&pos));
    assert!(sp::s_sane(&pos, pos.occ()));
}

// @ob id=S5.1 props=C05 also=C01 tier=quick kind=lemma cache=yes weight=light fn="spec: s_valid_core,s_legal,s_apply" desc="code-independent step lemma behind 'legal play stays within valid positions': for every valid position (cardinality clauses aside) and every legal move, the rule-prescribed successor is again valid — one king per side, no pawn on the first or last rank, castle rights still backed, en-passant state consistent, and the side that just moved is not in check. With O2.1a/O2.2a (code result == successor), O5.1 and S1.5 the library's own sanity check accepts every reachable position; the cardinality clauses follow from the structural monotonicity clauses of O2.1a"
#[kani::proof]
#[kani::unwind(9)]
fn spec_legal_step_keeps_valid() {
    let b = any_raw_board();
    let pos = to_pos(&b);
    kani::assume(sp::s_valid_core(&pos));
    let mv = to_mv(any_move());
    kani::assume(sp::s_legal(&pos, &mv));
    let q = sp::s_apply(&pos, &mv);
    assert!(sp::s_valid_core(&q));
    kani::cover!(sp::s_is_castle(&pos, &mv));
    kani::cover!(q.ep.is_some());
}

pub(crate) fn any_builder() -> BoardBuilder {
    let mut bb = BoardBuilder::new();
    let mut i = 0u8;
    while i < 64 {
        if kani::any() {
            bb.piece(Square::new(i), any_piece(), any_color());
        }
        i += 1;
    }
    bb.side_to_move(any_color());
    bb.castle_rights(Color::White, any_rights());
    bb.castle_rights(Color::Black, any_rights());
    if kani::any() {
        bb.en_passant(Some(any_file()));
    }
    bb
}

/// returns whether the builder was accepted WITH an en-passant square recorded (for the callers' reachability covers)
fn try_from_check(symbolic_squares: u64) -> bool {
    let (bb, codes) = crate::board_builder::k_builder::any_builder_codes(symbolic_squares);
    let (pp, ps, pc, pk) = set_probe();
    let r = Board::try_from(&bb);
    // assemble the expected position from the builder's contents, square by square
    let mut pieces = [0u64; 6];
    let mut colors = [0u64; 2];
    let mut i = 0u8;
    while i < 64 {
        let c = codes[i as usize];
        if c < 12 {
            pieces[(c % 6) as usize] |= 1u64 << i;
            colors[(c / 6) as usize] |= 1u64 << i;
        }
        i += 1;
    }
    let stm = bb.get_side_to_move().to_index();
    let ep_sq: Option<u8> = match bb.get_en_passant() {
        None => None,
        Some(s) => {
            let e = s.to_int();
            // on the double-push rank of the side that just moved
            assert!(sp::rank_of(e) == if stm == 0 { 4 } else { 3 });
            let d = sp::bit(e);
            if (((d << 1) & sp::NOT_A) | ((d >> 1) & sp::NOT_H)) & pieces[0] & colors[stm] != 0 {
                Some(e)
            } else {
                None
            }
        }
    };
    let want = sp::Pos { pieces, colors, stm, rights: [bb.get_castle_rights(Color::White).to_index() as u8, bb.get_castle_rights(Color::Black).to_index() as u8], ep: ep_sq };
    let ok = sp::s_sane(&want, want.occ());
    match r {
        Err(_) => assert!(!ok),
        Ok(b) => {
            assert!(ok);
            let got = to_pos(&b);
            assert!(got.pieces[0] == want.pieces[0] && got.pieces[1] == want.pieces[1] && got.pieces[2] == want.pieces[2]);
            assert!(got.pieces[3] == want.pieces[3] && got.pieces[4] == want.pieces[4] && got.pieces[5] == want.pieces[5]);
            assert!(got.colors[0] == want.colors[0] && got.colors[1] == want.colors[1] && b.combined.0 == want.occ());
            assert!(got.stm == want.stm && got.rights[0] == want.rights[0] && got.rights[1] == want.rights[1]);
            assert!(got.ep == want.ep);
            let (c2, p2) = sp::s_check_pin(&got);
            assert!(b.checkers.0 == c2 && b.pinned.0 == p2);
            // hash, coordinate-wise: the probed key is in the field exactly when that man is on the board
            let present = want.pieces[pp] & want.colors[pc] & sp::bit(ps) != 0;
            assert!(b.hash == if present { pk } else { 0 });
        }
    }
    kani::cover!(ok);
    ok && want.ep.is_some()
}


// @ob id=O7.1q props=C07 also=C06,C08 tier=quick kind=bounded weight=light bound="the 32 squares of ranks 1,2,7,8 carry any of 13 contents, ranks 3-6 are empty; side, rights, en-passant file symbolic" fn="TryFrom<&BoardBuilder> for Board,Board::set_ep,Board::add_castle_rights,BoardBuilder::get_en_passant" desc="for a FULLY symbolic builder (any of 13 contents on each of the 64 squares, any side, rights, en-passant file — far more men than a chess set included): the conversion never panics and never reads out of bounds; Ok(b) exactly when the gatekeeper spec holds of the assembled board; then b's placement is the builder's placement square by square, side and rights are the builder's, the en-passant square is the builder's file on the double-push rank of the side that just moved and is recorded exactly when a pawn of the side to move stands beside it, and checkers/pinned equal the from-scratch spec. Callees update_pin_info / is_sane are used through their contracts O3.1 / O5.1"
#[kani::proof]
#[kani::unwind(66)]
#[kani::stub(crate::board::Board::update_pin_info, upi_spec)]
#[kani::stub(crate::board::Board::is_sane, is_sane_spec)]
#[kani::stub(crate::magic::get_rank, crate::vstubs::rank_cf)]
#[kani::stub(crate::magic::get_adjacent_files, crate::vstubs::adjacent_files_cf)]
#[kani::stub(crate::zobrist::Zobrist::piece, crate::vstubs::zobrist_probe)]
fn c07_try_from_builder_outer_ranks() {
    let _ = try_from_check(0xffff_0000_0000_ffff);
}

// @ob id=O7.1e props=C07,C06,C08 tier=quick kind=bounded weight=light bound="the 32 squares of ranks 1,4,5,8 carry any of 13 contents, ranks 2,3,6,7 are empty; side, rights, en-passant file symbolic" fn="TryFrom<&BoardBuilder> for Board,Board::set_ep,BoardBuilder::get_en_passant" desc="same contract as O7.1q with the symbolic squares on the back ranks and the two double-push ranks, so the en-passant clause is exercised non-vacuously in the quick tier: the en-passant square of the built board is the builder's file on the double-push rank and is recorded EXACTLY when a pawn of the side to move stands beside the pushed pawn — the same filter move application uses, hence a built position equals the one reached by play (added after seed C06b was missed: the outer-ranks variant leaves ranks 4/5 empty, so every en-passant request was rejected by the gatekeeper before the filter mattered)"
#[kani::proof]
#[kani::unwind(66)]
#[kani::stub(crate::board::Board::update_pin_info, upi_spec)]
#[kani::stub(crate::board::Board::is_sane, is_sane_spec)]
#[kani::stub(crate::magic::get_rank, crate::vstubs::rank_cf)]
#[kani::stub(crate::magic::get_adjacent_files, crate::vstubs::adjacent_files_cf)]
#[kani::stub(crate::zobrist::Zobrist::piece, crate::vstubs::zobrist_probe)]
fn c07_try_from_builder_ep_ranks() {
    let ep_recorded = try_from_check(0xff00_00ff_ff00_00ff);
    kani::cover!(ep_recorded);
}

// @ob id=O7.1 props=C07 also=C06,C08 tier=thorough kind=proof weight=medium fn="TryFrom<&BoardBuilder> for Board,Board::set_ep,Board::add_castle_rights,BoardBuilder::get_en_passant" desc="for a FULLY symbolic builder (any of 13 contents on each of the 64 squares, any side, rights, en-passant file — far more men than a chess set included): the conversion never panics and never reads out of bounds; Ok(b) exactly when the gatekeeper spec holds of the assembled board; then b's placement is the builder's placement square by square, side and rights are the builder's, the en-passant square is the builder's file on the double-push rank of the side that just moved and is recorded exactly when a pawn of the side to move stands beside it, and checkers/pinned equal the from-scratch spec. Callees update_pin_info / is_sane are used through their contracts O3.1 / O5.1"
#[kani::proof]
#[kani::unwind(66)]
#[kani::stub(crate::board::Board::update_pin_info, upi_spec)]
#[kani::stub(crate::board::Board::is_sane, is_sane_spec)]
#[kani::stub(crate::magic::get_rank, crate::vstubs::rank_cf)]
#[kani::stub(crate::magic::get_adjacent_files, crate::vstubs::adjacent_files_cf)]
#[kani::stub(crate::zobrist::Zobrist::piece, crate::vstubs::zobrist_probe)]
fn c07_try_from_builder() {
    let ep_recorded = try_from_check(!0u64);
    kani::cover!(ep_recorded);
}

// @ob id=O7.canary props=C07,C05 tier=quick kind=canary fn="Board::is_sane" desc="deliberately false: is_sane accepts every board with one king per side — must FAIL"
#[kani::proof]
#[kani::unwind(9)]
#[kani::stub(crate::board::Board::update_pin_info, upi_spec)]
fn c07_canary() {
    let b = any_board();
    assert!(b.is_sane());
}

// ------------------------------------------------------------------------------------------ consumers of the generator (C01, C04)

/// contract of MoveGen::new_legal used by its consumers: SOME freshly started generator (index 0, no promotion in
/// progress, mask = all squares, iterator invariant) — its move set stands for the legal moves (C01 producers)
pub(crate) fn any_fresh_gen(_b: &Board) -> MoveGen {
    let g = crate::movegen::k_movegen::any_gen_raw();
    kani::assume(crate::movegen::k_movegen::fresh(&g));
    g
}

pub(crate) fn any_small_fresh_gen(b: &Board) -> MoveGen {
    let g = any_fresh_gen(b);
    let s = crate::movegen::k_movegen::last_gen_snapshot();
    kani::assume(s.0[0].1.count_ones() <= 1 && s.0[1].1.count_ones() <= 1 && s.0[2].1.count_ones() <= 1);
    g
}

// @ob id=O1.9 props=C01 tier=quick kind=bounded weight=light bound="generator with at most 3 slots of at most 1 destination each standing for the legal-move list" fn="Board::legal" desc="the single-move legality query answers true exactly for the (source, destination, promotion) triples the generator would yield — promotion slots yield exactly the four promotion pieces, other slots exactly promotion None — and false for every other of the 64x64x7 move values; new_legal used through its contract"
#[kani::proof]
#[kani::unwind(15)]
#[kani::stub(crate::movegen::MoveGen::new_legal, any_small_fresh_gen)]
fn c01_board_legal_is_membership() {
    let b = any_raw_board();
    let m = any_move();
    // the stand-in generator is re-created inside legal(); fix its content through a shared snapshot
    let r = b.legal(m);
    let snap = crate::movegen::k_movegen::last_gen_snapshot();
    let (s, d) = (m.get_source().to_int(), m.get_dest().to_int());
    let mut want = false;
    let mut i = 0;
    while i < 3 {
        if i < snap.1 {
            let (sq, bb, promo) = snap.0[i];
            if sq == s && bb & (1u64 << d) != 0 {
                let pm = m.get_promotion();
                if promo {
                    if pm == Some(Piece::Queen) || pm == Some(Piece::Knight) || pm == Some(Piece::Rook) || pm == Some(Piece::Bishop) {
                        want = true;
                    }
                } else if pm.is_none() {
                    want = true;
                }
            }
        }
        i += 1;
    }
    assert!(r == want);
    kani::cover!(r);
}

// @ob id=O4.1k props=C04 tier=quick kind=bounded weight=light bound="generator with at most 3 slots standing for the legal-move list" fn="Board::status" desc="status is Checkmate exactly when the generator has nothing to yield and the checkers set is non-empty, Stalemate exactly when it has nothing to yield and the checkers set is empty, Ongoing otherwise; new_legal used through its contract, len() through O14.2"
#[kani::proof]
#[kani::unwind(20)]
#[kani::stub(crate::movegen::MoveGen::new_legal, any_fresh_gen)]
fn c04_status() {
    let b = any_raw_board();
    let st = b.status();
    let snap = crate::movegen::k_movegen::last_gen_snapshot();
    let mut any_move_left = false;
    let mut i = 0;
    while i < 3 {
        if i < snap.1 && snap.0[i].1 != 0 {
            any_move_left = true;
        }
        i += 1;
    }
    let want = if any_move_left {
        BoardStatus::Ongoing
    } else if b.checkers.0 == 0 {
        BoardStatus::Stalemate
    } else {
        BoardStatus::Checkmate
    };
    assert!(st == want);
    kani::cover!(st == BoardStatus::Checkmate);
    kani::cover!(st == BoardStatus::Stalemate);
}

// @ob id=O4.canary props=C04 tier=quick kind=canary fn="Board::status" desc="deliberately false: status is never Stalemate — must FAIL"
#[kani::proof]
#[kani::unwind(20)]
#[kani::stub(crate::movegen::MoveGen::new_legal, any_fresh_gen)]
fn c04_canary() {
    let b = any_raw_board();
    assert!(b.status() != BoardStatus::Stalemate);
}
