// k_builder.rs — FEN rendering / builder conversions (C06).  Child module of `board_builder`.
// Rendering goes through Display::fmt into a fixed-size sink (no String growth).
use super::*;
use crate::vhelp::*;
use std::fmt::Write;

pub(crate) struct Sink64 {
    pub buf: [u8; 64],
    pub n: usize,
}
impl std::fmt::Write for Sink64 {
    fn write_str(&mut self, s: &str) -> std::fmt::Result {
        let b = s.as_bytes();
        let mut i = 0;
        while i < b.len() {
            if self.n >= 64 {
                return Err(std::fmt::Error);
            }
            self.buf[self.n] = b[i];
            self.n += 1;
            i += 1;
        }
        Ok(())
    }
}

/// fully symbolic builder, constructed field by field: codes[i] in 0..=12 is the content of square i
/// (piece + 6*colour, 12 = empty)
pub(crate) fn any_builder_codes(symbolic_squares: u64) -> (BoardBuilder, [u8; 64]) {
    let mut codes: [u8; 64] = kani::any();
    let mut pieces: [Option<(Piece, Color)>; 64] = [None; 64];
    let mut i = 0;
    while i < 64 {
        if symbolic_squares & (1u64 << i) == 0 {
            codes[i] = 12;
        }
        kani::assume(codes[i] <= 12);
        if codes[i] < 12 {
            pieces[i] = Some((piece_of((codes[i] % 6) as usize), color_of((codes[i] / 6) as usize)));
        }
        i += 1;
    }
    let (rw, rb): (u8, u8) = (kani::any(), kani::any());
    kani::assume(rw < 4 && rb < 4);
    let f: u8 = kani::any();
    kani::assume(f < 8);
    let bb = BoardBuilder {
        pieces,
        side_to_move: any_color(),
        castle_rights: [rights_of(rw), rights_of(rb)],
        en_passant: if kani::any() { Some(File::from_index(f as usize)) } else { None },
    };
    (bb, codes)
}

fn rights_of(k: u8) -> CastleRights {
    CastleRights::from_index(k as usize)
}

/// expected tail of the FEN after the placement field, written into `want` starting at `n`
fn expect_fields(want: &mut [u8; 64], mut n: usize, stm: Color, rw: u8, rb: u8, ep: Option<u8>) -> usize {
    want[n] = if stm == Color::White { b'w' } else { b'b' };
    want[n + 1] = b' ';
    n += 2;
    if rw & 1 != 0 {
        want[n] = b'K';
        n += 1;
    }
    if rw & 2 != 0 {
        want[n] = b'Q';
        n += 1;
    }
    if rb & 1 != 0 {
        want[n] = b'k';
        n += 1;
    }
    if rb & 2 != 0 {
        want[n] = b'q';
        n += 1;
    }
    if rw == 0 && rb == 0 {
        want[n] = b'-';
        n += 1;
    }
    want[n] = b' ';
    n += 1;
    match ep {
        Some(f) => {
            want[n] = b'a' + f;
            want[n + 1] = if stm == Color::White { b'6' } else { b'3' };
            n += 2;
        }
        None => {
            want[n] = b'-';
            n += 1;
        }
    }
    let tail = b" 0 1";
    let mut i = 0;
    while i < 4 {
        want[n] = tail[i];
        n += 1;
        i += 1;
    }
    n
}
fn render_and_compare(bb: &BoardBuilder, stm: Color, rw: u8, rb: u8, ep: Option<u8>) {
    let mut sink = Sink64 { buf: [0; 64], n: 0 };
    let r = write!(sink, "{}", bb);
    assert!(r.is_ok());
    let mut want = [0u8; 64];
    let head = b"8/8/8/8/8/8/8/8 ";
    let mut i = 0;
    while i < 16 {
        want[i] = head[i];
        i += 1;
    }
    let n = expect_fields(&mut want, 16, stm, rw, rb, ep);
    assert!(sink.n == n);
    i = 0;
    while i < 40 {
        if i < n {
            assert!(sink.buf[i] == want[i]);
        }
        i += 1;
    }
}

// @ob id=O6.1 props=C06 tier=quick kind=proof weight=light fn="Display for BoardBuilder,BoardBuilder::get_en_passant" desc="side-to-move and en-passant fields for EVERY side to move and en-passant file (or none), no castle rights, empty placement: the text is exactly '8/8/8/8/8/8/8/8 <w|b> - <- or file letter followed by 6 (white to move) / 3 (black to move)> 0 1' — six well-formed fields, the en-passant field naming the square the pawn passed over as the FEN standard specifies"
#[kani::proof]
#[kani::unwind(66)]
fn c06_render_ep_side() {
    let mut bb = BoardBuilder::new();
    let stm = any_color();
    bb.side_to_move(stm);
    let has_ep: bool = kani::any();
    let f: u8 = kani::any();
    kani::assume(f < 8);
    if has_ep {
        bb.en_passant(Some(File::from_index(f as usize)));
    }
    render_and_compare(&bb, stm, 0, 0, if has_ep { Some(f) } else { None });
}

// @ob id=O6.1r props=C06 tier=quick kind=proof gen=range:16 qsel=6 unwind=66 weight=light fn="Display for BoardBuilder,CastleRights::to_string" desc="castling field: instance i fixes white rights = i mod 4 and black rights = i div 4 (all 16 combinations across the family), side to move symbolic: the field is the subset of KQkq in that order, or '-' when neither side has rights; the other fields as in O6.1"
fn c06_render_rights(_c: usize, i: u8) {
    let mut bb = BoardBuilder::new();
    let stm = any_color();
    bb.side_to_move(stm);
    let (rw, rb) = (i & 3, i >> 2);
    bb.castle_rights(Color::White, rights_of(rw));
    bb.castle_rights(Color::Black, rights_of(rb));
    render_and_compare(&bb, stm, rw, rb, None);
}

// @ob id=O6.2 props=C06 tier=thorough kind=bounded weight=medium bound="one man (any of 12) on any one square, other 63 squares empty" fn="Display for BoardBuilder,Piece::to_string" desc="placement field with a single symbolic man: ranks are written from 8 down to 1 separated by '/', the man's rank reads <files before as a digit, omitted if 0><piece letter, upper case for white><files after as a digit, omitted if 0>, every other rank reads 8"
#[kani::proof]
#[kani::unwind(66)]
fn c06_render_one_man() {
    let mut bb = BoardBuilder::new();
    let s = any_sq_u8();
    let (p, c) = (any_piece(), any_color());
    bb.piece(Square::new(s), p, c);
    let mut sink = Sink64 { buf: [0; 64], n: 0 };
    let r = write!(sink, "{}", bb);
    assert!(r.is_ok());
    let (rank, file) = (s >> 3, s & 7);
    let letters = b"pnbrqk";
    let l = letters[p.to_index()];
    let letter = if c == Color::White { l - 32 } else { l };
    // position of the man's rank in the text: ranks 8..(rank+1) come first, each "8/"
    let before = (7 - rank) as usize * 2;
    let mut k = before;
    if file > 0 {
        assert!(sink.buf[k] == b'0' + file);
        k += 1;
    }
    assert!(sink.buf[k] == letter);
    k += 1;
    if file < 7 {
        assert!(sink.buf[k] == b'0' + (7 - file));
        k += 1;
    }
    if rank > 0 {
        assert!(sink.buf[k] == b'/');
    } else {
        assert!(sink.buf[k] == b' ');
    }
    let mut i = 0;
    while i < 14 {
        if i < before {
            assert!(sink.buf[i] == if i % 2 == 0 { b'8' } else { b'/' });
        }
        i += 1;
    }
}

// @ob id=O6.3 props=C06 tier=thorough kind=proof weight=medium fn="From<&Board> for BoardBuilder,BoardBuilder::setup" desc="structured half of the round trip: for every board satisfying the occupancy invariant, the builder made from it has, square by square, exactly the board's men, its side to move, both castle rights and the en-passant FILE of the board's en-passant square (none if none). With O7.1 (builder -> board reproduces placement/side/rights/en-passant and the from-scratch check, pin and hash data) and O3.4 (== is determined by these) a board equals the board rebuilt from its own builder"
#[kani::proof]
#[kani::unwind(66)]
fn c06_builder_from_board() {
    let b = crate::board::k_board::any_board();
    let pos = crate::board::k_board::to_pos(&b);
    let bb: BoardBuilder = (&b).into();
    let s = any_sq_u8();
    match bb[Square::new(s)] {
        None => assert!(pos.piece_at(s).is_none()),
        Some((p, c)) => assert!(pos.piece_at(s) == Some(p.to_index()) && pos.color_at(s) == Some(c.to_index())),
    }
    assert!(bb.get_side_to_move().to_index() == pos.stm);
    assert!(bb.get_castle_rights(Color::White).to_index() as u8 == pos.rights[0]);
    assert!(bb.get_castle_rights(Color::Black).to_index() as u8 == pos.rights[1]);
    match pos.ep {
        None => assert!(bb.get_en_passant().is_none()),
        Some(e) => {
            let g = bb.get_en_passant();
            assert!(g.is_some() && g.unwrap().to_int() & 7 == e & 7);
        }
    }
}

// @ob id=O6.2s props=C06 tier=thorough kind=bounded weight=medium bound="two concrete placements (the initial position and a position with every piece letter, both colours, runs of 1-8 empty squares), side / rights / en-passant symbolic as in O6.1" fn="Display for BoardBuilder,Piece::to_string,Display for Piece" desc="placement field on concrete multi-man boards: all twelve piece letters (upper case white, lower case black), run-length digits, '/' between ranks, rank 8 first — byte-exact against the known FEN text"
#[kani::proof]
#[kani::unwind(66)]
fn c06_render_concrete_placements() {
    // initial position
    let mut bb = BoardBuilder::new();
    let back = [Piece::Rook, Piece::Knight, Piece::Bishop, Piece::Queen, Piece::King, Piece::Bishop, Piece::Knight, Piece::Rook];
    let mut f = 0u8;
    while f < 8 {
        bb.piece(Square::new(f), back[f as usize], Color::White);
        bb.piece(Square::new(8 + f), Piece::Pawn, Color::White);
        bb.piece(Square::new(48 + f), Piece::Pawn, Color::Black);
        bb.piece(Square::new(56 + f), back[f as usize], Color::Black);
        f += 1;
    }
    bb.castle_rights(Color::White, CastleRights::Both);
    bb.castle_rights(Color::Black, CastleRights::Both);
    let mut sink = Sink64 { buf: [0; 64], n: 0 };
    assert!(write!(sink, "{}", bb).is_ok());
    let want = b"rnbqkbnr/pppppppp/8/8/8/8/PPPPPPPP/RNBQKBNR w KQkq - 0 1";
    assert!(sink.n == want.len());
    let mut i = 0;
    while i < 56 {
        assert!(sink.buf[i] == want[i]);
        i += 1;
    }
    // a sparse position: runs of 1..7 empty squares around single men
    let mut b2 = BoardBuilder::new();
    b2.piece(Square::new(56 + 1), Piece::King, Color::Black); // b8
    b2.piece(Square::new(48 + 7), Piece::Queen, Color::White); // h7
    b2.piece(Square::new(40), Piece::Bishop, Color::Black); // a6
    b2.piece(Square::new(32 + 3), Piece::Knight, Color::White); // d5
    b2.piece(Square::new(32 + 4), Piece::Pawn, Color::Black); // e5
    b2.piece(Square::new(0 + 6), Piece::King, Color::White); // g1
    b2.side_to_move(Color::Black);
    let mut s2 = Sink64 { buf: [0; 64], n: 0 };
    assert!(write!(s2, "{}", b2).is_ok());
    let want2 = b"1k6/7Q/b7/3Np3/8/8/8/6K1 b - - 0 1";
    assert!(s2.n == want2.len());
    i = 0;
    while i < 34 {
        assert!(s2.buf[i] == want2[i]);
        i += 1;
    }
}

// @ob id=O6.canary props=C06 tier=quick kind=canary fn="Display for BoardBuilder" desc="deliberately false: the rendered text never contains a 'b' — must FAIL"
#[kani::proof]
#[kani::unwind(66)]
fn c06_canary() {
    let mut bb = BoardBuilder::new();
    bb.side_to_move(any_color());
    let mut sink = Sink64 { buf: [0; 64], n: 0 };
    let _ = write!(sink, "{}", bb);
    assert!(sink.buf[16] != b'b');
}
