// vstubs.rs — functional stand-ins for the table accessors of src/magic.rs and src/zobrist.rs.
// Each is the closed form that an obligation of C15/C16 proves equal to the real accessor over its full
// domain on the real tables; board-level obligations use them via #[kani::stub] so the big tables are
// bit-blasted once, not per obligation.
use crate::bitboard::BitBoard;
use crate::color::Color;
use crate::file::File;
use crate::rank::Rank;
use crate::square::Square;
use crate::vspec as sp;

pub fn between_cf(a: Square, b: Square) -> BitBoard {
    BitBoard(sp::s_between(a.to_int(), b.to_int()))
}
pub fn line_cf(a: Square, b: Square) -> BitBoard {
    BitBoard(sp::s_line(a.to_int(), b.to_int()))
}
pub fn rook_rays_cf(s: Square) -> BitBoard {
    BitBoard(sp::s_rook_rays(s.to_int()))
}
pub fn bishop_rays_cf(s: Square) -> BitBoard {
    BitBoard(sp::s_bishop_rays(s.to_int()))
}
pub fn king_moves_cf(s: Square) -> BitBoard {
    BitBoard(sp::s_king(s.to_int()))
}
pub fn knight_moves_cf(s: Square) -> BitBoard {
    BitBoard(sp::s_knight(s.to_int()))
}
pub fn pawn_attacks_cf(s: Square, c: Color, bl: BitBoard) -> BitBoard {
    BitBoard(sp::s_pawn_att(s.to_int(), c.to_index()) & bl.0)
}
pub fn pawn_quiets_cf(s: Square, c: Color, bl: BitBoard) -> BitBoard {
    BitBoard(sp::s_pawn_quiets(s.to_int(), c.to_index(), bl.0))
}
pub fn pawn_moves_cf(s: Square, c: Color, bl: BitBoard) -> BitBoard {
    BitBoard(sp::s_pawn_moves(s.to_int(), c.to_index(), bl.0))
}
pub fn rook_moves_cf(s: Square, occ: BitBoard) -> BitBoard {
    BitBoard(sp::s_rook_moves_lf(s.to_int(), occ.0))
}
pub fn bishop_moves_cf(s: Square, occ: BitBoard) -> BitBoard {
    BitBoard(sp::s_bishop_moves_lf(s.to_int(), occ.0))
}
pub fn rank_cf(r: Rank) -> BitBoard {
    BitBoard(sp::RANK_1 << (8 * r.to_index()))
}
pub fn file_cf(f: File) -> BitBoard {
    BitBoard(sp::FILE_A << f.to_index())
}
pub fn adjacent_files_cf(f: File) -> BitBoard {
    BitBoard(sp::s_adjacent_files(f.to_index() as u8))
}

// ---- abstractions used by the make_move obligations ----
/// frame stand-in: no rays at all => the slider scan loop has no iterations (see O2.1a for the assumption this encodes)
pub fn no_rays(_s: Square) -> BitBoard {
    BitBoard(0)
}
/// recording stand-ins: EMPTY rays as `no_rays`, but the square each accessor was asked about is kept, so a harness can
/// assert that the scan is anchored on the opponent king (links the `ksq` of the Verus tail proof to the position)
pub static mut RAY_ARGS: (u8, u8) = (255, 255);
pub fn rec_bishop_rays(s: Square) -> BitBoard {
    unsafe {
        RAY_ARGS.0 = s.to_int();
    }
    BitBoard(0)
}
pub fn rec_rook_rays(s: Square) -> BitBoard {
    unsafe {
        RAY_ARGS.1 = s.to_int();
    }
    BitBoard(0)
}
/// false in a native replay (stubs are not applied there), true under the verifier (stubbed by `under_stubs_yes`):
/// lets a harness whose contract is phrased relative to a stand-in fall back to the stand-in-free statement when the
/// counterexample is replayed on the real code
pub fn under_stubs() -> bool {
    false
}
pub fn under_stubs_yes() -> bool {
    true
}
/// havoc abstraction of get_rook_rays / get_bishop_rays: ANY set of at most 14 squares (the real rays of a
/// square never have more than 14 members — proved against the real tables by O16.3s)
pub fn havoc_rays(_s: Square) -> BitBoard {
    let x: u64 = kani::any();
    kani::assume(x.count_ones() <= 14);
    BitBoard(x)
}
/// probe stand-in for Zobrist::piece: every key is 0 except the probed coordinate
pub static mut PROBE: (usize, u8, usize, u64) = (0, 0, 0, 0);
pub fn zobrist_probe(p: crate::piece::Piece, sq: Square, c: Color) -> u64 {
    unsafe {
        if p.to_index() == PROBE.0 && sq.to_int() == PROBE.1 && c.to_index() == PROBE.2 {
            PROBE.3
        } else {
            0
        }
    }
}
