// k_chess_move.rs — coordinate (UCI) text of moves and squares (C13).  Child module of `chess_move`.
// Text obligations are split into a RENDER contract (bytes written into a fixed sink == spec bytes, all values)
// and a PARSE contract (symbolic bytes -> same result as the spec parser), joined by the inverse/prefix facts
// asserted in the parse harness.  `to_string()`/`format!` are avoided (String growth is intractable for CBMC);
// Display::fmt itself is the function under contract.
use super::*;
use crate::vhelp::*;
use std::fmt::Write;

pub(crate) struct Sink {
    pub buf: [u8; 8],
    pub n: usize,
}
impl std::fmt::Write for Sink {
    fn write_str(&mut self, s: &str) -> std::fmt::Result {
        let b = s.as_bytes();
        let mut i = 0;
        while i < b.len() {
            if self.n >= 8 {
                return Err(std::fmt::Error);
            }
            self.buf[self.n] = b[i];
            self.n += 1;
            i += 1;
        }
        Ok(())
    }
}

/// stand-in for the formatting-heavy panic path of str slicing (`&s[a..b]` off a char boundary): still a panic
fn slice_fail_stub(_s: &str, _begin: usize, _end: usize) -> ! {
    panic!("str slice index is out of range or not on a char boundary")
}

fn promo_of(k: u8) -> Option<Piece> {
    match k {
        0 => None,
        1 => Some(Piece::Queen),
        2 => Some(Piece::Rook),
        3 => Some(Piece::Knight),
        _ => Some(Piece::Bishop),
    }
}
fn promo_letter(k: u8) -> u8 {
    match k {
        1 => b'q',
        2 => b'r',
        3 => b'n',
        _ => b'b',
    }
}

// @ob id=O13.1a props=C13 also=C06 tier=quick kind=proof fn="Display for Square" desc="every one of the 64 squares renders as exactly two bytes: file letter a-h then rank digit 1-8"
#[kani::proof]
#[kani::unwind(10)]
fn c13_square_render() {
    let s = any_sq_u8();
    let mut sink = Sink { buf: [0; 8], n: 0 };
    let r = write!(sink, "{}", Square::new(s));
    assert!(r.is_ok());
    assert!(sink.n == 2);
    assert!(sink.buf[0] == b'a' + (s & 7) && sink.buf[1] == b'1' + (s >> 3));
}

// @ob id=O13.1b props=C13 tier=quick kind=proof weight=light fn="Display for ChessMove,Display for Piece" desc="every one of the 20480 move values (64x64 squares, promotion none/q/r/n/b) renders as source square, destination square and the lower-case promotion letter if any — 4 or 5 bytes, nothing else"
#[kani::proof]
#[kani::unwind(10)]
fn c13_move_render() {
    let (s, d) = (any_sq_u8(), any_sq_u8());
    let k: u8 = kani::any();
    kani::assume(k < 5);
    let m = ChessMove::new(Square::new(s), Square::new(d), promo_of(k));
    let mut sink = Sink { buf: [0; 8], n: 0 };
    let r = write!(sink, "{}", m);
    assert!(r.is_ok());
    assert!(sink.n == if k == 0 { 4 } else { 5 });
    assert!(sink.buf[0] == b'a' + (s & 7) && sink.buf[1] == b'1' + (s >> 3));
    assert!(sink.buf[2] == b'a' + (d & 7) && sink.buf[3] == b'1' + (d >> 3));
    if k != 0 {
        assert!(sink.buf[4] == promo_letter(k));
    }
}

fn spec_parse_square(b: &[u8]) -> Option<u8> {
    if b.len() < 2 {
        return None;
    }
    if b[0] < b'a' || b[0] > b'h' || b[1] < b'1' || b[1] > b'8' {
        return None;
    }
    Some((b[1] - b'1') * 8 + (b[0] - b'a'))
}

fn ascii_input<const N: usize>() -> ([u8; N], usize) {
    let buf: [u8; N] = kani::any();
    let len: usize = kani::any();
    kani::assume(len <= N);
    let mut i = 0;
    while i < N {
        kani::assume(buf[i] < 128);
        i += 1;
    }
    (buf, len)
}

// @ob id=O13.2a props=C13 also=C07 tier=quick kind=bounded bound="every ASCII string of length 0..=4" fn="FromStr for Square" desc="Square::from_str never panics; it succeeds exactly when the first two bytes are a file letter a-h and a rank digit 1-8, returns that square, and the rendering of the result (O13.1a) is the 2-byte prefix of the input: parse(render(sq)) == sq for all 64 squares"
#[kani::proof]
#[kani::unwind(8)]
#[kani::stub(core::str::slice_error_fail, slice_fail_stub)]
fn c13_square_parse() {
    let (buf, len) = ascii_input::<4>();
    let s = unsafe { std::str::from_utf8_unchecked(&buf[..len]) };
    let r = Square::from_str(s);
    match spec_parse_square(&buf[..len]) {
        None => assert!(r.is_err()),
        Some(q) => {
            assert!(r.is_ok());
            let sq = r.unwrap();
            assert!(sq.to_int() == q);
            // prefix: rendering = [file letter, rank digit] = buf[0..2]
            assert!(buf[0] == b'a' + (q & 7) && buf[1] == b'1' + (q >> 3));
        }
    }
}

// @ob id=O13.2b props=C13 also=C07 tier=quick kind=bounded bound="every ASCII string of length 0..=6" weight=light fn="FromStr for ChessMove" desc="ChessMove::from_str never panics; it succeeds exactly when bytes 0..2 and 2..4 are squares and (length != 5 or byte 4 is one of q r n b); the result has those squares and that promotion (none unless length == 5); the rendering of the result (O13.1b) is a prefix of the input — so parse(render(m)) == m for all 20480 move values"
#[kani::proof]
#[kani::unwind(9)]
#[kani::stub(core::str::slice_error_fail, slice_fail_stub)]
fn c13_move_parse() {
    let (buf, len) = ascii_input::<6>();
    let s = unsafe { std::str::from_utf8_unchecked(&buf[..len]) };
    let r = ChessMove::from_str(s);
    let want: Option<(u8, u8, u8)> = if len < 4 {
        None
    } else {
        match (spec_parse_square(&buf[0..2]), spec_parse_square(&buf[2..4])) {
            (Some(a), Some(b)) => {
                if len == 5 {
                    match buf[4] {
                        b'q' => Some((a, b, 1)),
                        b'r' => Some((a, b, 2)),
                        b'n' => Some((a, b, 3)),
                        b'b' => Some((a, b, 4)),
                        _ => None,
                    }
                } else {
                    Some((a, b, 0))
                }
            }
            _ => None,
        }
    };
    match want {
        None => assert!(r.is_err()),
        Some((a, b, k)) => {
            assert!(r.is_ok());
            let m = r.unwrap();
            assert!(m.get_source().to_int() == a && m.get_dest().to_int() == b && m.get_promotion() == promo_of(k));
            // prefix / inverse: the rendering of m is buf[0..4] (+ buf[4] when a promotion was parsed)
            assert!(buf[0] == b'a' + (a & 7) && buf[1] == b'1' + (a >> 3) && buf[2] == b'a' + (b & 7) && buf[3] == b'1' + (b >> 3));
            if k != 0 {
                assert!(len == 5 && buf[4] == promo_letter(k));
            }
        }
    }
    kani::cover!(want.is_some() && len == 5);
    kani::cover!(want.is_some() && len == 6);
}

fn parse_total(n: usize) {
    let buf: [u8; 5] = kani::any();
    let len: usize = kani::any();
    kani::assume(len <= n);
    if let Ok(s) = std::str::from_utf8(&buf[..len]) {
        let _ = ChessMove::from_str(s);
        let _ = Square::from_str(s);
    }
}

// @ob id=O13.3 props=C13 also=C07 tier=thorough kind=bounded bound="every byte string of length 0..=4 that is valid UTF-8 (2-, 3- and 4-byte sequences included)" weight=light fn="FromStr for ChessMove,FromStr for Square" desc="totality on non-ASCII text: neither parser panics on any valid UTF-8 string of up to 4 bytes (char-boundary slicing, chars().last(), Vec<char> indexing)"
#[kani::proof]
#[kani::unwind(9)]
#[kani::stub(core::str::slice_error_fail, slice_fail_stub)]
fn c13_parse_total_utf8_4() {
    parse_total(4);
}

// @ob id=O13.3t props=C13 also=C07 tier=thorough kind=bounded bound="every valid UTF-8 byte string of length 0..=5" weight=medium fn="FromStr for ChessMove,FromStr for Square" desc="as O13.3 with 5 bytes (covers the length-5 promotion branch with a multi-byte last character)"
#[kani::proof]
#[kani::unwind(9)]
#[kani::stub(core::str::slice_error_fail, slice_fail_stub)]
fn c13_parse_total_utf8_5() {
    parse_total(5);
}

// @ob id=O13.4 props=C13 also=C07 tier=quick kind=bounded bound="two arbitrary VALID squares (4 ASCII bytes) followed by one arbitrary Unicode scalar value (1-4 bytes)" weight=light fn="FromStr for ChessMove" desc="totality where slicing by byte offsets could cut a character: a well-formed 4-byte move prefix followed by ANY character (multi-byte included) never makes ChessMove::from_str panic; if it succeeds the squares are those of the prefix and a promotion is reported only for a trailing q/r/n/b"
#[kani::proof]
#[kani::unwind(12)]
#[kani::stub(core::str::slice_error_fail, slice_fail_stub)]
fn c13_parse_total_tail_char() {
    let mut buf = [0u8; 8];
    let (a, b) = (any_sq_u8(), any_sq_u8());
    buf[0] = b'a' + (a & 7);
    buf[1] = b'1' + (a >> 3);
    buf[2] = b'a' + (b & 7);
    buf[3] = b'1' + (b >> 3);
    let c: char = kani::any();
    let n = c.encode_utf8(&mut buf[4..8]).len();
    let s = unsafe { std::str::from_utf8_unchecked(&buf[..4 + n]) };
    match ChessMove::from_str(s) {
        Ok(m) => {
            assert!(m.get_source().to_int() == a && m.get_dest().to_int() == b);
            match m.get_promotion() {
                None => assert!(n != 1 || !(c == 'q' || c == 'r' || c == 'n' || c == 'b')),
                Some(p) => assert!(n == 1 && c == (match p { Piece::Queen => 'q', Piece::Rook => 'r', Piece::Knight => 'n', _ => 'b' })),
            }
        }
        Err(_) => assert!(n == 1),
    }
}

// @ob id=O13.canary props=C13 tier=quick kind=canary fn="FromStr for Square" desc="deliberately false: Square::from_str accepts every 2-byte ASCII string — must FAIL"
#[kani::proof]
#[kani::unwind(8)]
fn c13_canary() {
    let (buf, _len) = ascii_input::<2>();
    let s = unsafe { std::str::from_utf8_unchecked(&buf[..2]) };
    assert!(Square::from_str(s).is_ok());
}

// ------------------------------------------------------------------------------------------ SAN (C12), callee-modular, bounded
// from_san fuses a str scanner with a filter over the legal moves.  The obligation replaces its callees by their
// contracts: MoveGen::new_legal -> SOME freshly started generator (<= 3 slots of <= 2,1,1 destinations) standing for
// the legal moves; Board::piece_on -> an arbitrary but fixed square -> piece table; Board::side_to_move -> an arbitrary
// colour.  The text is an arbitrary ASCII string of bounded length.  Oracle: the documented grammar.

pub(crate) static mut SAN_TABLE: [u8; 64] = [6; 64];
pub(crate) static mut SAN_STM: bool = false;
fn san_piece_on(_b: &Board, sq: Square) -> Option<Piece> {
    let v = unsafe { SAN_TABLE[sq.to_index()] } & 7;
    if v >= 6 {
        None
    } else {
        Some(piece_of(v as usize))
    }
}
fn san_stm(_b: &Board) -> crate::color::Color {
    if unsafe { SAN_STM } {
        crate::color::Color::Black
    } else {
        crate::color::Color::White
    }
}

/// does `t` spell the move (src,dst,promo) by the documented grammar?
/// [piece letter] [source file] [source rank] ['x' iff capture] dest-file dest-rank [promotion letter] ['+'|'#'] [" e.p." only for en passant]
fn san_spells(t: &[u8], src: u8, dst: u8, promo: Option<Piece>, piece: Piece, capture: bool, ep: bool) -> bool {
    let letter: Option<u8> = match piece {
        Piece::Pawn => None,
        Piece::Knight => Some(b'N'),
        Piece::Bishop => Some(b'B'),
        Piece::Rook => Some(b'R'),
        Piece::Queen => Some(b'Q'),
        Piece::King => Some(b'K'),
    };
    // four disambiguation variants: none, file, rank, file+rank
    let mut v = 0;
    while v < 4 {
        let mut i = 0usize;
        let mut ok = true;
        if let Some(l) = letter {
            if i < t.len() && t[i] == l {
                i += 1;
            } else {
                ok = false;
            }
        }
        if ok && v & 1 != 0 {
            if i < t.len() && t[i] == b'a' + (src & 7) {
                i += 1;
            } else {
                ok = false;
            }
        }
        if ok && v & 2 != 0 {
            if i < t.len() && t[i] == b'1' + (src >> 3) {
                i += 1;
            } else {
                ok = false;
            }
        }
        if ok && capture {
            if i < t.len() && t[i] == b'x' {
                i += 1;
            } else {
                ok = false;
            }
        }
        if ok {
            if i + 1 < t.len() && t[i] == b'a' + (dst & 7) && t[i + 1] == b'1' + (dst >> 3) {
                i += 2;
            } else {
                ok = false;
            }
        }
        if ok {
            if let Some(p) = promo {
                let pl = match p {
                    Piece::Knight => b'N',
                    Piece::Bishop => b'B',
                    Piece::Rook => b'R',
                    _ => b'Q',
                };
                if i < t.len() && t[i] == pl {
                    i += 1;
                } else {
                    ok = false;
                }
            }
        }
        if ok && i < t.len() && (t[i] == b'+' || t[i] == b'#') {
            i += 1;
        }
        if ok && ep && i + 5 == t.len() && t[i] == b' ' && t[i + 1] == b'e' && t[i + 2] == b'.' && t[i + 3] == b'p' && t[i + 4] == b'.' {
            i += 5;
        }
        if ok && i == t.len() {
            return true;
        }
        v += 1;
    }
    false
}

fn san_check(len_max: usize) {
    let b = crate::board::k_board::any_raw_board();
    let table: [u8; 64] = kani::any();
    let mut i = 0;
    unsafe {
        SAN_TABLE = table;
        SAN_STM = kani::any();
    }
    let buf: [u8; 8] = kani::any();
    let len: usize = kani::any();
    kani::assume(len <= len_max && len_max <= 8);
    i = 0;
    while i < 8 {
        kani::assume(buf[i] < 128);
        i += 1;
    }
    // castling texts are covered by a separate obligation
    kani::assume(!(len >= 3 && buf[0] == b'O'));
    let s = unsafe { std::str::from_utf8_unchecked(&buf[..len]) };
    let r = ChessMove::from_san(&b, s);
    let snap = crate::movegen::k_movegen::last_gen_snapshot();
    // the legal moves M of the stand-in generator (<= 2,1,1 destinations per slot), and how many of them the text spells
    let mut matches = 0u32;
    let mut hit: Option<ChessMove> = None;
    let mut k = 0;
    while k < 3 {
        if k < snap.1 {
            let (sq, bb, promo_slot) = snap.0[k];
            let mut rest = bb;
            let mut n = 0;
            while n < 2 {
                if rest != 0 {
                    let d = rest.trailing_zeros() as u8;
                    rest &= rest - 1;
                    if let Some(piece) = san_piece_on(&b, Square::new(sq)) {
                        let occupied = table[d as usize] & 7 < 6;
                        let ep = piece == Piece::Pawn && (sq & 7) != (d & 7) && !occupied;
                        let capture = occupied || ep;
                        let mut j = 0;
                        while j < 4 {
                            let promo = if promo_slot { Some(PROMO[j]) } else { None };
                            if (promo_slot || j == 0) && san_spells(&buf[..len], sq, d, promo, piece, capture, ep) {
                                matches += 1;
                                hit = Some(ChessMove::new(Square::new(sq), Square::new(d), promo));
                            }
                            j += 1;
                        }
                    }
                }
                n += 1;
            }
        }
        k += 1;
    }
    match r {
        Ok(m) => assert!(matches == 1 && hit == Some(m)),
        Err(_) => assert!(matches != 1),
    }
    kani::cover!(matches == 1);
}
const PROMO: [Piece; 4] = [Piece::Queen, Piece::Knight, Piece::Rook, Piece::Bishop];

// (not registered: measured out of reach, see DESIGN.md §0.2)  id=O12.1 props=C12 kind=bounded bound="every ASCII text of length 0..=5 (not starting with 'O'); generator of at most 3 slots with at most 2,1,1 destinations standing for the legal moves; arbitrary piece table and side" weight=medium fn="ChessMove::from_san" desc="callee-modular: Ok(m) exactly when the text spells exactly one of the legal moves by the documented grammar (piece letter, optional correct source file/rank, 'x' iff capture incl. en passant, destination, promotion letter, optional +/#, optional ' e.p.' for en passant) and m is that move; Err when it spells none or more than one; never a panic"
#[kani::proof]
#[kani::unwind(20)]
#[kani::stub(crate::board::Board::piece_on, san_piece_on)]
#[kani::stub(crate::board::Board::side_to_move, san_stm)]
#[kani::stub(crate::movegen::MoveGen::new_legal, crate::board::k_board::any_small_fresh_gen)]
fn c12_from_san_5() {
    san_check(4);
}
