// k_chess_move.rs — coordinate (UCI) text of moves and squares (C13).  Child module of `chess_move`.
// Text obligations are split into a RENDER contract (bytes written into a fixed sink == spec bytes, all values)
// and a PARSE contract (symbolic bytes -> same result as the spec parser), joined by the inverse/prefix facts
// asserted in the parse harness.  `to_string()`/`format!` are avoided (String growth is intractable for CBMC);
// Display::fmt itself is the function under contract.
use super::*;
use crate::vhelp::*;
use std::fmt::Write;

pub(crate) struct Sink {
    pub buf: [u8; 8],
    pub n: usize,
}
impl std::fmt::Write for Sink {
    fn write_str(&mut self, s: &str) -> std::fmt::Result {
        let b = s.as_bytes();
        let mut i = 0;
        while i < b.len() {
            if self.n >= 8 {
                return Err(std::fmt::Error);
            }
            self.buf[self.n] = b[i];
            self.n += 1;
            i += 1;
        }
        Ok(())
    }
}

fn promo_of(k: u8) -> Option<Piece> {
    match k {
        0 => None,
        1 => Some(Piece::Queen),
        2 => Some(Piece::Rook),
        3 => Some(Piece::Knight),
        _ => Some(Piece::Bishop),
    }
}
fn promo_letter(k: u8) -> u8 {
    match k {
        1 => b'q',
        2 => b'r',
        3 => b'n',
        _ => b'b',
    }
}

// @ob id=O13.1a props=C13 also=C06 tier=quick kind=proof fn="Display for Square" desc="every one of the 64 squares renders as exactly two bytes: file letter a-h then rank digit 1-8"
#[kani::proof]
#[kani::unwind(10)]
fn c13_square_render() {
    let s = any_sq_u8();
    let mut sink = Sink { buf: [0; 8], n: 0 };
    let r = write!(sink, "{}", Square::new(s));
    assert!(r.is_ok());
    assert!(sink.n == 2);
    assert!(sink.buf[0] == b'a' + (s & 7) && sink.buf[1] == b'1' + (s >> 3));
}

// @ob id=O13.1b props=C13 tier=quick kind=proof weight=light fn="Display for ChessMove,Display for Piece" desc="every one of the 20480 move values (64x64 squares, promotion none/q/r/n/b) renders as source square, destination square and the lower-case promotion letter if any — 4 or 5 bytes, nothing else"
#[kani::proof]
#[kani::unwind(10)]
fn c13_move_render() {
    let (s, d) = (any_sq_u8(), any_sq_u8());
    let k: u8 = kani::any();
    kani::assume(k < 5);
    let m = ChessMove::new(Square::new(s), Square::new(d), promo_of(k));
    let mut sink = Sink { buf: [0; 8], n: 0 };
    let r = write!(sink, "{}", m);
    assert!(r.is_ok());
    assert!(sink.n == if k == 0 { 4 } else { 5 });
    assert!(sink.buf[0] == b'a' + (s & 7) && sink.buf[1] == b'1' + (s >> 3));
    assert!(sink.buf[2] == b'a' + (d & 7) && sink.buf[3] == b'1' + (d >> 3));
    if k != 0 {
        assert!(sink.buf[4] == promo_letter(k));
    }
}

fn spec_parse_square(b: &[u8]) -> Option<u8> {
    if b.len() < 2 {
        return None;
    }
    if b[0] < b'a' || b[0] > b'h' || b[1] < b'1' || b[1] > b'8' {
        return None;
    }
    Some((b[1] - b'1') * 8 + (b[0] - b'a'))
}

fn ascii_input<const N: usize>() -> ([u8; N], usize) {
    let buf: [u8; N] = kani::any();
    let len: usize = kani::any();
    kani::assume(len <= N);
    let mut i = 0;
    while i < N {
        kani::assume(buf[i] < 128);
        i += 1;
    }
    (buf, len)
}

// @ob id=O13.2a props=C13 also=C07 tier=quick kind=bounded bound="every ASCII string of length 0..=4" fn="FromStr for Square" desc="Square::from_str never panics; it succeeds exactly when the first two bytes are a file letter a-h and a rank digit 1-8, returns that square, and the rendering of the result (O13.1a) is the 2-byte prefix of the input: parse(render(sq)) == sq for all 64 squares"
#[kani::proof]
#[kani::unwind(8)]
fn c13_square_parse() {
    let (buf, len) = ascii_input::<4>();
    let s = unsafe { std::str::from_utf8_unchecked(&buf[..len]) };
    let r = Square::from_str(s);
    match spec_parse_square(&buf[..len]) {
        None => assert!(r.is_err()),
        Some(q) => {
            assert!(r.is_ok());
            let sq = r.unwrap();
            assert!(sq.to_int() == q);
            // prefix: rendering = [file letter, rank digit] = buf[0..2]
            assert!(buf[0] == b'a' + (q & 7) && buf[1] == b'1' + (q >> 3));
        }
    }
}

// @ob id=O13.2b props=C13 also=C07 tier=quick kind=bounded bound="every ASCII string of length 0..=6" weight=light fn="FromStr for ChessMove" desc="ChessMove::from_str never panics; it succeeds exactly when bytes 0..2 and 2..4 are squares and (length != 5 or byte 4 is one of q r n b); the result has those squares and that promotion (none unless length == 5); the rendering of the result (O13.1b) is a prefix of the input — so parse(render(m)) == m for all 20480 move values"
#[kani::proof]
#[kani::unwind(9)]
fn c13_move_parse() {
    let (buf, len) = ascii_input::<6>();
    let s = unsafe { std::str::from_utf8_unchecked(&buf[..len]) };
    let r = ChessMove::from_str(s);
    let want: Option<(u8, u8, u8)> = if len < 4 {
        None
    } else {
        match (spec_parse_square(&buf[0..2]), spec_parse_square(&buf[2..4])) {
            (Some(a), Some(b)) => {
                if len == 5 {
                    match buf[4] {
                        b'q' => Some((a, b, 1)),
                        b'r' => Some((a, b, 2)),
                        b'n' => Some((a, b, 3)),
                        b'b' => Some((a, b, 4)),
                        _ => None,
                    }
                } else {
                    Some((a, b, 0))
                }
            }
            _ => None,
        }
    };
    match want {
        None => assert!(r.is_err()),
        Some((a, b, k)) => {
            assert!(r.is_ok());
            let m = r.unwrap();
            assert!(m.get_source().to_int() == a && m.get_dest().to_int() == b && m.get_promotion() == promo_of(k));
            // prefix / inverse: the rendering of m is buf[0..4] (+ buf[4] when a promotion was parsed)
            assert!(buf[0] == b'a' + (a & 7) && buf[1] == b'1' + (a >> 3) && buf[2] == b'a' + (b & 7) && buf[3] == b'1' + (b >> 3));
            if k != 0 {
                assert!(len == 5 && buf[4] == promo_letter(k));
            }
        }
    }
    kani::cover!(want.is_some() && len == 5);
    kani::cover!(want.is_some() && len == 6);
}

fn parse_total(n: usize) {
    let buf: [u8; 5] = kani::any();
    let len: usize = kani::any();
    kani::assume(len <= n);
    if let Ok(s) = std::str::from_utf8(&buf[..len]) {
        let _ = ChessMove::from_str(s);
        let _ = Square::from_str(s);
    }
}

// @ob id=O13.3 props=C13 also=C07 tier=thorough kind=bounded bound="every byte string of length 0..=4 that is valid UTF-8 (2-, 3- and 4-byte sequences included)" weight=light fn="FromStr for ChessMove,FromStr for Square" desc="totality on non-ASCII text: neither parser panics on any valid UTF-8 string of up to 4 bytes (char-boundary slicing, chars().last(), Vec<char> indexing)"
#[kani::proof]
#[kani::unwind(9)]
fn c13_parse_total_utf8_4() {
    parse_total(4);
}

// @ob id=O13.3t props=C13 also=C07 tier=thorough kind=bounded bound="every valid UTF-8 byte string of length 0..=5" weight=medium fn="FromStr for ChessMove,FromStr for Square" desc="as O13.3 with 5 bytes (covers the length-5 promotion branch with a multi-byte last character)"
#[kani::proof]
#[kani::unwind(9)]
fn c13_parse_total_utf8_5() {
    parse_total(5);
}

// @ob id=O13.4 props=C13 also=C07 tier=quick kind=bounded bound="two arbitrary VALID squares (4 ASCII bytes) followed by one arbitrary Unicode scalar value (1-4 bytes)" weight=light fn="FromStr for ChessMove" desc="totality where slicing by byte offsets could cut a character: a well-formed 4-byte move prefix followed by ANY character (multi-byte included) never makes ChessMove::from_str panic; if it succeeds the squares are those of the prefix and a promotion is reported only for a trailing q/r/n/b"
#[kani::proof]
#[kani::unwind(12)]
fn c13_parse_total_tail_char() {
    let mut buf = [0u8; 8];
    let (a, b) = (any_sq_u8(), any_sq_u8());
    buf[0] = b'a' + (a & 7);
    buf[1] = b'1' + (a >> 3);
    buf[2] = b'a' + (b & 7);
    buf[3] = b'1' + (b >> 3);
    let c: char = kani::any();
    let n = c.encode_utf8(&mut buf[4..8]).len();
    let s = unsafe { std::str::from_utf8_unchecked(&buf[..4 + n]) };
    match ChessMove::from_str(s) {
        Ok(m) => {
            assert!(m.get_source().to_int() == a && m.get_dest().to_int() == b);
            match m.get_promotion() {
                None => assert!(n != 1 || !(c == 'q' || c == 'r' || c == 'n' || c == 'b')),
                Some(p) => assert!(n == 1 && c == (match p { Piece::Queen => 'q', Piece::Rook => 'r', Piece::Knight => 'n', _ => 'b' })),
            }
        }
        Err(_) => assert!(n == 1),
    }
}

// @ob id=O13.canary props=C13 tier=quick kind=canary fn="FromStr for Square" desc="deliberately false: Square::from_str accepts every 2-byte ASCII string — must FAIL"
#[kani::proof]
#[kani::unwind(8)]
fn c13_canary() {
    let (buf, _len) = ascii_input::<2>();
    let s = unsafe { std::str::from_utf8_unchecked(&buf[..2]) };
    assert!(Square::from_str(s).is_ok());
}
