// k_magic.rs — contracts on src/magic.rs (C16 geometry accessors, C15 slider lookups).  Child module of `magic`.
// Every accessor is compared with the table-free specification over its FULL domain on the REAL tables.
// The closed forms proved here are exactly the functional stand-ins of vstubs.rs.
use super::*;
use crate::vhelp::*;
use crate::vspec as sp;

// @ob id=O16.1 props=C16 also=C03,C01 tier=quick kind=proof fn="between" desc="for all 64x64 pairs and every test square t: t in between(a,b) <=> t lies strictly between a and b on a common rank/file/diagonal (definitional), and between(a,b) equals the closed form used as stand-in; the unchecked table index is in bounds"
#[kani::proof]
fn c16_between() {
    let (a, b, t) = (any_sq_u8(), any_sq_u8(), any_sq_u8());
    let r = between(Square::new(a), Square::new(b)).0;
    assert!(sp::has(r, t) == sp::s_is_between(a, t, b));
    assert!(r == sp::s_between(a, b));
}

// @ob id=O16.2 props=C16 also=C01 tier=quick kind=proof fn="line" desc="for all pairs and every t: t in line(a,b) <=> a != b aligned and t on the full line through them; equals the closed form"
#[kani::proof]
fn c16_line() {
    let (a, b, t) = (any_sq_u8(), any_sq_u8(), any_sq_u8());
    let r = line(Square::new(a), Square::new(b)).0;
    assert!(sp::has(r, t) == sp::s_is_on_line(a, t, b));
    assert!(r == sp::s_line(a, b));
}

// @ob id=O16.3 props=C16 also=C03 tier=quick kind=proof fn="get_rook_rays,get_bishop_rays" desc="rook rays = rank+file minus the square; bishop rays = both diagonals minus the square, for all 64 squares, checked pointwise against |dr|,|df| and against the closed forms"
#[kani::proof]
fn c16_rays() {
    let (s, t) = (any_sq_u8(), any_sq_u8());
    let rr = get_rook_rays(Square::new(s)).0;
    let br = get_bishop_rays(Square::new(s)).0;
    let dr = sp::rank_of(s) - sp::rank_of(t);
    let df = sp::file_of(s) - sp::file_of(t);
    assert!(sp::has(rr, t) == (s != t && (dr == 0 || df == 0)));
    assert!(sp::has(br, t) == (s != t && (dr == df || dr == -df)));
    assert!(rr == sp::s_rook_rays(s));
    assert!(br == sp::s_bishop_rays(s));
}

// @ob id=O16.3s props=C16 also=C02 tier=quick kind=proof fn="get_rook_rays,get_bishop_rays" desc="size bound used by the havoc abstraction of the rays: no square has more than 14 rook-ray or 13 bishop-ray squares"
#[kani::proof]
fn c16_rays_size() {
    let s = any_sq_u8();
    assert!(get_rook_rays(Square::new(s)).popcnt() == 14);
    assert!(get_bishop_rays(Square::new(s)).popcnt() <= 13);
}

// @ob id=O16.4 props=C16 also=C01,C03 tier=quick kind=proof fn="get_king_moves,get_knight_moves" desc="king set = the up to 8 neighbours; knight set = the (1,2)/(2,1) leaps, for all 64 squares, pointwise by coordinate differences and equal to the shift-pattern closed forms"
#[kani::proof]
fn c16_king_knight() {
    let (s, t) = (any_sq_u8(), any_sq_u8());
    let k = get_king_moves(Square::new(s)).0;
    let n = get_knight_moves(Square::new(s)).0;
    let dr = (sp::rank_of(s) - sp::rank_of(t)).abs();
    let df = (sp::file_of(s) - sp::file_of(t)).abs();
    assert!(sp::has(k, t) == (s != t && dr <= 1 && df <= 1));
    assert!(sp::has(n, t) == ((dr == 1 && df == 2) || (dr == 2 && df == 1)));
    assert!(k == sp::s_king(s));
    assert!(n == sp::s_knight(s));
}

// @ob id=O16.5 props=C16,C17 also=C01,C03 tier=quick kind=proof fn="get_pawn_attacks" desc="pawn attack set = the one or two squares diagonally forward for the colour, intersected with the victims argument; all squares, colours and victim sets"
#[kani::proof]
fn c16_pawn_attacks() {
    let (s, t) = (any_sq_u8(), any_sq_u8());
    let c: usize = if kani::any() { 0 } else { 1 };
    let bl: u64 = kani::any();
    let r = get_pawn_attacks(Square::new(s), color_of(c), BitBoard(bl)).0;
    let fwd = if c == 0 { 1 } else { -1 };
    let geom = sp::rank_of(t) - sp::rank_of(s) == fwd && (sp::file_of(t) - sp::file_of(s)).abs() == 1;
    assert!(sp::has(r, t) == (geom && sp::has(bl, t)));
    assert!(r == sp::s_pawn_att(s, c) & bl);
}

// @ob id=O16.6 props=C16,C17 also=C01 tier=quick kind=proof fn="get_pawn_quiets,get_pawn_moves" desc="quiet pushes: one step iff the square ahead is empty; two steps only from the colour's starting rank and only through two empty squares; get_pawn_moves = attacks on occupied squares + quiets; all squares, colours, occupancies"
#[kani::proof]
fn c16_pawn_quiets_moves() {
    let s = any_sq_u8();
    let c: usize = if kani::any() { 0 } else { 1 };
    let occ: u64 = kani::any();
    let q = get_pawn_quiets(Square::new(s), color_of(c), BitBoard(occ)).0;
    let m = get_pawn_moves(Square::new(s), color_of(c), BitBoard(occ)).0;
    // definitional
    let r = sp::rank_of(s);
    let f = sp::file_of(s);
    let fwd = if c == 0 { 1 } else { -1 };
    let start = if c == 0 { 1 } else { 6 };
    let mut want = 0u64;
    if sp::on_board(r + fwd, f) && !sp::has(occ, sp::sq_of(r + fwd, f)) {
        want |= sp::bit(sp::sq_of(r + fwd, f));
        if r == start && !sp::has(occ, sp::sq_of(r + 2 * fwd, f)) {
            want |= sp::bit(sp::sq_of(r + 2 * fwd, f));
        }
    }
    assert!(q == want);
    assert!(q == sp::s_pawn_quiets(s, c, occ));
    assert!(m == sp::s_pawn_moves(s, c, occ));
    assert!(m == (sp::s_pawn_att(s, c) & occ) | want);
}

// @ob id=O16.7 props=C16 tier=quick kind=proof fn="get_rank,get_file,get_adjacent_files,EDGES" desc="rank/file sets contain exactly the squares of that rank/file; adjacent files = the one or two neighbouring files; EDGES = squares on rank 1/8 or file a/h"
#[kani::proof]
fn c16_ranks_files() {
    let t = any_sq_u8();
    let i: u8 = kani::any();
    kani::assume(i < 8);
    let rk = get_rank(Rank::from_index(i as usize)).0;
    let fl = get_file(File::from_index(i as usize)).0;
    let ad = get_adjacent_files(File::from_index(i as usize)).0;
    assert!(sp::has(rk, t) == (sp::rank_of(t) == i as i32));
    assert!(sp::has(fl, t) == (sp::file_of(t) == i as i32));
    assert!(sp::has(ad, t) == ((sp::file_of(t) - i as i32).abs() == 1));
    assert!(ad == sp::s_adjacent_files(i));
    let e = EDGES.0;
    assert!(sp::has(e, t) == (sp::rank_of(t) == 0 || sp::rank_of(t) == 7 || sp::file_of(t) == 0 || sp::file_of(t) == 7));
    assert!(e == sp::s_edges());
}

// @ob id=O16.8 props=C16,C17 also=C02,C01 tier=quick kind=proof fn="get_castle_moves,get_pawn_source_double_moves,get_pawn_dest_double_moves,KINGSIDE_CASTLE_SQUARES,QUEENSIDE_CASTLE_SQUARES" desc="castle move squares = {c1,e1,g1,c8,e8,g8}; double-move sources = ranks 2,7; destinations = ranks 4,5; squares that must be empty for castling = f,g (king side) and b,c,d (queen side) on the colour's back rank"
#[kani::proof]
fn c16_constants() {
    assert!(get_castle_moves().0 == (1u64 << 2) | (1 << 4) | (1 << 6) | (1 << 58) | (1 << 60) | (1 << 62));
    assert!(get_pawn_source_double_moves().0 == (0xffu64 << 8) | (0xffu64 << 48));
    assert!(get_pawn_dest_double_moves().0 == (0xffu64 << 24) | (0xffu64 << 32));
    assert!(KINGSIDE_CASTLE_SQUARES[0].0 == (1u64 << 5) | (1 << 6));
    assert!(KINGSIDE_CASTLE_SQUARES[1].0 == (1u64 << 61) | (1 << 62));
    assert!(QUEENSIDE_CASTLE_SQUARES[0].0 == (1u64 << 1) | (1 << 2) | (1 << 3));
    assert!(QUEENSIDE_CASTLE_SQUARES[1].0 == (1u64 << 57) | (1 << 58) | (1 << 59));
    // colour symmetry of the per-colour constants (C17)
    assert!(KINGSIDE_CASTLE_SQUARES[1].0 == sp::s_mirror_bb(KINGSIDE_CASTLE_SQUARES[0].0));
    assert!(QUEENSIDE_CASTLE_SQUARES[1].0 == sp::s_mirror_bb(QUEENSIDE_CASTLE_SQUARES[0].0));
}

// @ob id=O16.canary props=C16 tier=quick kind=canary fn="between" desc="deliberately false: between(a,b) never contains b+1 — must FAIL"
#[kani::proof]
fn c16_canary() {
    let (a, b) = (any_sq_u8(), any_sq_u8());
    kani::assume(b < 63);
    assert!(!sp::has(between(Square::new(a), Square::new(b)).0, b + 1));
}

// ------------------------------------------------------------------------------------------ C15
// magic-table facts on the REAL 128-entry MAGIC_NUMBERS table (small, symbolic index is cheap)

// @ob id=O15.1 props=C15 tier=quick kind=proof fn="get_rook_moves,get_bishop_moves (index computation)" desc="for every square and EVERY 64-bit occupancy the table index offset + ((magic * (occ & mask)) >> shift) is inside MOVES (the unchecked read is in bounds), the stored mask is exactly the set of squares whose occupancy can matter (rays without the far edge), and the index depends only on occ & mask"
#[kani::proof]
fn c15_index_in_bounds() {
    let s = any_sq_u8();
    let occ: u64 = kani::any();
    let rook: bool = kani::any();
    let magic: Magic = MAGIC_NUMBERS[if rook { ROOK } else { BISHOP }][s as usize];
    let idx = (magic.offset as usize) + (magic.magic_number * (BitBoard(occ) & magic.mask)).to_size(magic.rightshift);
    assert!(idx < MOVES.len());
    assert!(magic.rightshift > 0 && magic.rightshift < 64);
    if rook {
        assert!(magic.mask.0 == sp::s_relevant_rook(s));
    } else {
        assert!(magic.mask.0 == sp::s_relevant_bishop(s));
    }
}

// @ob id=O15.2 props=C15 tier=quick kind=lemma cache=yes fn="spec: s_rook_moves,s_bishop_moves (frame)" desc="code-independent frame lemma: the ray-walk result depends only on the occupancy of the relevant squares: walk(sq,occ) == walk(sq, occ & relevant(sq)) for all sq, occ — lifts the exhaustive subset enumeration to all 2^64 occupancies"
#[kani::proof]
#[kani::unwind(9)]
fn c15_spec_frame() {
    let s = any_sq_u8();
    let occ: u64 = kani::any();
    assert!(sp::s_rook_moves(s, occ) == sp::s_rook_moves(s, occ & sp::s_relevant_rook(s)));
    assert!(sp::s_bishop_moves(s, occ) == sp::s_bishop_moves(s, occ & sp::s_relevant_bishop(s)));
}

// per-square full proofs on the real 104 960-entry table: generated family, one instance per (piece, square).
// `kc` = 0 rook / 1 bishop, `sq` fixed.
// @ob id=O15.3 props=C15 tier=quick kind=proof gen=king qsel=2 unwind=9 weight=heavy fn="get_rook_moves,get_bishop_moves" desc="for the fixed square and ALL 2^64 occupancies the magic lookup equals the union of the four ray walks up to and including the first blocker (real MOVES table bit-blasted); instance suffix w_=rook, b_=bishop"
fn c15_lookup(kc: usize, sq: u8) {
    let occ: u64 = kani::any();
    if kc == 0 {
        assert!(get_rook_moves(Square::new(sq), BitBoard(occ)).0 == sp::s_rook_moves(sq, occ));
    } else {
        assert!(get_bishop_moves(Square::new(sq), BitBoard(occ)).0 == sp::s_bishop_moves(sq, occ));
    }
}

// @ob id=O15.canary props=C15 tier=quick kind=canary fn="get_rook_moves" desc="deliberately false: the stored rook mask of every square includes the square a1 — must FAIL"
#[kani::proof]
fn c15_canary() {
    let s = any_sq_u8();
    assert!(MAGIC_NUMBERS[ROOK][s as usize].mask.0 & 1 == 1);
}
