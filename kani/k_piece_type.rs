// k_piece_type.rs — legality leaves and move-list producers of src/movegen/piece_type.rs (C01, C07, C17).
// Child module of `movegen::piece_type`.
use super::*;
use crate::board::k_board::{any_board, to_pos};
use crate::movegen::MoveList;
use crate::vhelp::*;
use crate::vspec as sp;
use arrayvec::ArrayVec;
use nodrop::NoDrop;

// ------------------------------------------------------------------------------------------ leaves

// @ob id=O1.1 props=C01,C17,C04 tier=quick kind=proof weight=light fn="KingType::legal_king_move" desc="for EVERY placement satisfying the occupancy invariant, either side to move and every destination square: legal_king_move(board,d) is true exactly when no enemy man attacks d on the board with the mover's king lifted off and d treated as occupied — independent flood-fill attack spec started from the attackers (the library looks from the target); slider lookups through their C15 contract"
#[kani::proof]
#[kani::unwind(9)]
#[kani::stub(crate::magic::get_rook_moves, crate::vstubs::rook_moves_cf)]
#[kani::stub(crate::magic::get_bishop_moves, crate::vstubs::bishop_moves_cf)]
#[kani::stub(crate::magic::get_knight_moves, crate::vstubs::knight_moves_cf)]
#[kani::stub(crate::magic::get_king_moves, crate::vstubs::king_moves_cf)]
#[kani::stub(crate::magic::get_pawn_attacks, crate::vstubs::pawn_attacks_cf)]
fn c01_legal_king_move() {
    let b = any_board();
    let pos = to_pos(&b);
    let d = any_sq_u8();
    let k = pos.king_sq(pos.stm);
    let want = !sp::s_attacked(&pos, d, 1 - pos.stm, (pos.occ() & !sp::bit(k)) | sp::bit(d));
    assert!(KingType::legal_king_move(&b, Square::new(d)) == want);
    kani::cover!(want);
    kani::cover!(!want);
}

/// a valid position with checkers / pinned as the representation invariant prescribes
pub(crate) fn any_valid_wf_board() -> (Board, sp::Pos, u64, u64) {
    let b = any_board();
    let pos = to_pos(&b);
    kani::assume(sp::s_valid_core(&pos));
    let (ch, pin) = sp::s_check_pin(&pos);
    kani::assume(b.checkers().0 == ch && b.pinned().0 == pin);
    (b, pos, ch, pin)
}

// @ob id=O1.2 props=C01,C17,C04 tier=quick kind=proof weight=light fn="PawnType::legal_ep_move" desc="for every valid position with en-passant state (pushed pawn on its fourth rank, squares behind it empty, the position before the push had the mover's king safe) and each of the up to two capturing pawns: legal_ep_move is true exactly when, after the capture (both pawns gone from their squares, capturer on the passed-over square), the mover's king is not attacked — definitional flood-fill spec covering rank- and diagonal-exposure"
#[kani::proof]
#[kani::unwind(9)]
#[kani::stub(crate::magic::get_rook_moves, crate::vstubs::rook_moves_cf)]
#[kani::stub(crate::magic::get_bishop_moves, crate::vstubs::bishop_moves_cf)]
#[kani::stub(crate::magic::get_rook_rays, crate::vstubs::rook_rays_cf)]
#[kani::stub(crate::magic::get_bishop_rays, crate::vstubs::bishop_rays_cf)]
fn c01_legal_ep_move() {
    let b = any_board();
    let pos = to_pos(&b);
    kani::assume(sp::s_valid_core(&pos));
    kani::assume(pos.ep.is_some());
    let ep = pos.ep.unwrap();
    let src = any_sq_u8();
    let dst = if pos.stm == 0 { ep + 8 } else { ep - 8 };
    let mv = sp::Mv { src, dst, promo: None };
    kani::assume(sp::s_pseudo_geom(&pos, &mv) && sp::s_is_ep_capture(&pos, &mv));
    let want = sp::s_legal(&pos, &mv);
    assert!(PawnType::legal_ep_move(&b, Square::new(src), Square::new(dst)) == want);
    kani::cover!(want);
    kani::cover!(!want);
}

// @ob id=O1.3 props=C01,C17,C04 tier=quick kind=proof weight=light fn="PawnType::pseudo_legals,KnightType::pseudo_legals,BishopType::pseudo_legals,RookType::pseudo_legals,QueenType::pseudo_legals,KingType::pseudo_legals,PieceType::is,PieceType::into_piece" desc="pseudo_legals of each of the six piece types equals its movement rule intersected with the mask, for every source square, colour, occupancy and mask: pawn pushes (double step only from the second rank through two empty squares) plus captures only onto occupied squares, knight leaps, king steps, slider rays up to and including the first blocker (through the C15/C16 contracts); is()/into_piece() name the right piece"
#[kani::proof]
#[kani::unwind(9)]
#[kani::stub(crate::magic::get_rook_moves, crate::vstubs::rook_moves_cf)]
#[kani::stub(crate::magic::get_bishop_moves, crate::vstubs::bishop_moves_cf)]
fn c01_pseudo_legals() {
    let s = any_sq_u8();
    let sq = Square::new(s);
    let c = any_color();
    let occ: u64 = kani::any();
    let mask: u64 = kani::any();
    let (o, m) = (BitBoard(occ), BitBoard(mask));
    assert!(PawnType::pseudo_legals(sq, c, o, m).0 == sp::s_pawn_moves(s, c.to_index(), occ) & mask);
    assert!(KnightType::pseudo_legals(sq, c, o, m).0 == sp::s_knight(s) & mask);
    assert!(KingType::pseudo_legals(sq, c, o, m).0 == sp::s_king(s) & mask);
    assert!(BishopType::pseudo_legals(sq, c, o, m).0 == sp::s_bishop_moves(s, occ) & mask);
    assert!(RookType::pseudo_legals(sq, c, o, m).0 == sp::s_rook_moves(s, occ) & mask);
    assert!(QueenType::pseudo_legals(sq, c, o, m).0 == (sp::s_rook_moves(s, occ) | sp::s_bishop_moves(s, occ)) & mask);
    let p = any_piece();
    assert!(PawnType::is(p) == (p == Piece::Pawn) && KnightType::is(p) == (p == Piece::Knight) && BishopType::is(p) == (p == Piece::Bishop));
    assert!(RookType::is(p) == (p == Piece::Rook) && QueenType::is(p) == (p == Piece::Queen) && KingType::is(p) == (p == Piece::King));
    assert!(PawnType::into_piece() == Piece::Pawn && KnightType::into_piece() == Piece::Knight && BishopType::into_piece() == Piece::Bishop);
    assert!(RookType::into_piece() == Piece::Rook && QueenType::into_piece() == Piece::Queen && KingType::into_piece() == Piece::King);
}

// ------------------------------------------------------------------------------------------ producers (bounded cross-check on the real ArrayVec)

pub(crate) fn new_list() -> MoveList {
    NoDrop::new(ArrayVec::<SquareAndBitBoard, 18>::new())
}

/// how many entries of the list hold (source s, destination d)
fn count_in_list(list: &MoveList, s: u8, d: u8, max: usize) -> usize {
    let mut n = 0;
    let mut i = 0;
    while i < max {
        if i < list.len() {
            let e = list[i];
            if e_square(&e) == s && e_bits(&e) & sp::bit(d) != 0 {
                n += 1;
            }
        }
        i += 1;
    }
    n
}
fn e_square(e: &SquareAndBitBoard) -> u8 {
    crate::movegen::movegen::k_movegen::entry_parts(e).0
}
fn e_bits(e: &SquareAndBitBoard) -> u64 {
    crate::movegen::movegen::k_movegen::entry_parts(e).1
}
fn e_promo(e: &SquareAndBitBoard) -> bool {
    crate::movegen::movegen::k_movegen::entry_parts(e).2
}

/// shared body: run the real T::legals::<C> and compare the produced list with the pin-aware legality spec
fn producer_check<T: PieceType, C: CheckType>(pt: usize) {
    producer_check_n::<T, C>(pt, 3);
}
fn producer_check_n<T: PieceType, C: CheckType>(pt: usize, pmax: u32) {
    producer_check_impl::<T, C>(pt, pmax, false);
}
fn producer_check_ep<T: PieceType, C: CheckType>(pt: usize, pmax: u32) {
    producer_check_impl::<T, C>(pt, pmax, true);
}
fn producer_check_impl<T: PieceType, C: CheckType>(pt: usize, pmax: u32, ep_only: bool) {
    #[allow(non_snake_case)]
    let PMAX = pmax;
    let (b, pos, ch, pin) = any_valid_wf_board();
    let me = pos.stm;
    kani::assume(if C::IN_CHECK { ch.count_ones() == 1 } else { ch == 0 });
    if ep_only {
        kani::assume(pos.ep.is_some());
    }
    let mine = pos.pieces[pt] & pos.colors[me];
    kani::assume(mine.count_ones() <= PMAX);
    let mut list = new_list();
    T::legals::<C>(&mut list, &b, BitBoard(!pos.colors[me]));
    let cap = (PMAX + 2) as usize;
    assert!(list.len() <= cap);
    // probe: an arbitrary (source, destination) pair
    let (s, d) = (any_sq_u8(), any_sq_u8());
    let n = count_in_list(&list, s, d, cap);
    let is_mine = mine & sp::bit(s) != 0;
    let mut want = is_mine && sp::s_legal2_set(&pos, s, ch, pin) & sp::bit(d) != 0;
    if pt == sp::PAWN && is_mine && sp::s_ep_legal(&pos, s, d) {
        want = true;
    }
    assert!(n == if want { 1 } else { 0 });
    // every entry is non-empty, belongs to a man of this type, and carries the right promotion flag
    let mut i = 0;
    while i < cap {
        if i < list.len() {
            let e = list[i];
            assert!(e_bits(&e) != 0);
            assert!(mine & sp::bit(e_square(&e)) != 0);
            let seventh = if me == 0 { 6 } else { 1 };
            let ep_entry = pt == sp::PAWN && pos.ep.is_some() && e_bits(&e) & pos.occ() == 0 && sp::file_of(e_square(&e)) != sp::file_of((e_bits(&e).trailing_zeros() as u8) & 63);
            assert!(e_promo(&e) == (pt == sp::PAWN && !ep_entry && sp::rank_of(e_square(&e)) == seventh));
        }
        i += 1;
    }
    kani::cover!(want);
    if PMAX >= 2 {
        kani::cover!(list.len() >= 2);
    } else {
        kani::cover!(list.len() >= 1);
    }
}

// @ob id=O1.4n0 props=C01 tier=quick kind=bounded weight=light bound="at most 1 knight of the mover (the Verus loop proof O1.4/O1.4n/O1.5 shows every entry depends only on its own source square); everything else symbolic (any valid position, symbolic king)" fn="KnightType::legals::<NotInCheckType>" desc="real KnightType::legals on the real ArrayVec, not in check: for an arbitrary (source,destination) probe the produced list contains the pair exactly once iff the knight is unpinned and the leap lands off own men; no entry is empty or promoted"
#[kani::proof]
#[kani::unwind(9)]
#[kani::stub(crate::magic::between, crate::vstubs::between_cf)]
#[kani::stub(crate::magic::line, crate::vstubs::line_cf)]
#[kani::stub(crate::magic::get_knight_moves, crate::vstubs::knight_moves_cf)]
fn c01_legals_knight_nocheck() {
    producer_check_n::<KnightType, NotInCheckType>(sp::KNIGHT, 1);
}

// @ob id=O1.4n0t props=C01 tier=thorough kind=bounded weight=medium bound="at most 3 knights of the mover" fn="KnightType::legals::<NotInCheckType>" desc="real KnightType::legals on the real ArrayVec, not in check: for an arbitrary (source,destination) probe the produced list contains the pair exactly once iff the knight is unpinned and the leap lands off own men; no entry is empty or promoted"
#[kani::proof]
#[kani::unwind(9)]
#[kani::stub(crate::magic::between, crate::vstubs::between_cf)]
#[kani::stub(crate::magic::line, crate::vstubs::line_cf)]
#[kani::stub(crate::magic::get_knight_moves, crate::vstubs::knight_moves_cf)]
fn c01_legals_knight_nocheck_3() {
    producer_check_n::<KnightType, NotInCheckType>(sp::KNIGHT, 3);
}

// @ob id=O1.4n1 props=C01 tier=quick kind=bounded weight=light bound="at most 1 knight of the mover (the Verus loop proof O1.4/O1.4n/O1.5 shows every entry depends only on its own source square); everything else symbolic (any valid position, symbolic king)" fn="KnightType::legals::<InCheckType>" desc="as O1.4n0 in single check: only captures of the checker and interpositions by unpinned knights"
#[kani::proof]
#[kani::unwind(9)]
#[kani::stub(crate::magic::between, crate::vstubs::between_cf)]
#[kani::stub(crate::magic::line, crate::vstubs::line_cf)]
#[kani::stub(crate::magic::get_knight_moves, crate::vstubs::knight_moves_cf)]
fn c01_legals_knight_check() {
    producer_check_n::<KnightType, InCheckType>(sp::KNIGHT, 1);
}

// @ob id=O1.4n1t props=C01 tier=thorough kind=bounded weight=medium bound="at most 3 knights of the mover" fn="KnightType::legals::<InCheckType>" desc="as O1.4n0 in single check: only captures of the checker and interpositions by unpinned knights"
#[kani::proof]
#[kani::unwind(9)]
#[kani::stub(crate::magic::between, crate::vstubs::between_cf)]
#[kani::stub(crate::magic::line, crate::vstubs::line_cf)]
#[kani::stub(crate::magic::get_knight_moves, crate::vstubs::knight_moves_cf)]
fn c01_legals_knight_check_3() {
    producer_check_n::<KnightType, InCheckType>(sp::KNIGHT, 3);
}

// @ob id=O1.4b0 props=C01 tier=quick kind=bounded weight=light bound="at most 1 bishop of the mover (the Verus loop proof O1.4/O1.4n/O1.5 shows every entry depends only on its own source square); everything else symbolic (any valid position, symbolic king)" fn="PieceType::legals (default body) for BishopType, NotInCheckType" desc="generic legals body instantiated for bishops, not in check: unpinned bishops move along their rays, pinned bishops only along the line through the king"
#[kani::proof]
#[kani::unwind(9)]
#[kani::stub(crate::magic::between, crate::vstubs::between_cf)]
#[kani::stub(crate::magic::line, crate::vstubs::line_cf)]
#[kani::stub(crate::magic::get_bishop_moves, crate::vstubs::bishop_moves_cf)]
fn c01_legals_bishop_nocheck() {
    producer_check_n::<BishopType, NotInCheckType>(sp::BISHOP, 1);
}

// @ob id=O1.4b0t props=C01 tier=thorough kind=bounded weight=medium bound="at most 3 bishops of the mover" fn="PieceType::legals (default body) for BishopType, NotInCheckType" desc="generic legals body instantiated for bishops, not in check: unpinned bishops move along their rays, pinned bishops only along the line through the king"
#[kani::proof]
#[kani::unwind(9)]
#[kani::stub(crate::magic::between, crate::vstubs::between_cf)]
#[kani::stub(crate::magic::line, crate::vstubs::line_cf)]
#[kani::stub(crate::magic::get_bishop_moves, crate::vstubs::bishop_moves_cf)]
fn c01_legals_bishop_nocheck_3() {
    producer_check_n::<BishopType, NotInCheckType>(sp::BISHOP, 3);
}

// @ob id=O1.4b1 props=C01 tier=quick kind=bounded weight=light bound="at most 1 bishop of the mover (the Verus loop proof O1.4/O1.4n/O1.5 shows every entry depends only on its own source square); everything else symbolic (any valid position, symbolic king)" fn="PieceType::legals (default body) for BishopType, InCheckType" desc="generic legals body for bishops in single check: pinned bishops skipped, others restricted to the check mask"
#[kani::proof]
#[kani::unwind(9)]
#[kani::stub(crate::magic::between, crate::vstubs::between_cf)]
#[kani::stub(crate::magic::line, crate::vstubs::line_cf)]
#[kani::stub(crate::magic::get_bishop_moves, crate::vstubs::bishop_moves_cf)]
fn c01_legals_bishop_check() {
    producer_check_n::<BishopType, InCheckType>(sp::BISHOP, 1);
}

// @ob id=O1.4b1t props=C01 tier=thorough kind=bounded weight=medium bound="at most 3 bishops of the mover" fn="PieceType::legals (default body) for BishopType, InCheckType" desc="generic legals body for bishops in single check: pinned bishops skipped, others restricted to the check mask"
#[kani::proof]
#[kani::unwind(9)]
#[kani::stub(crate::magic::between, crate::vstubs::between_cf)]
#[kani::stub(crate::magic::line, crate::vstubs::line_cf)]
#[kani::stub(crate::magic::get_bishop_moves, crate::vstubs::bishop_moves_cf)]
fn c01_legals_bishop_check_3() {
    producer_check_n::<BishopType, InCheckType>(sp::BISHOP, 3);
}

// @ob id=O1.4r0 props=C01 tier=quick kind=bounded weight=light bound="at most 1 rook of the mover (the Verus loop proof O1.4/O1.4n/O1.5 shows every entry depends only on its own source square); everything else symbolic (any valid position, symbolic king)" fn="PieceType::legals (default body) for RookType, NotInCheckType" desc="generic legals body for rooks, not in check"
#[kani::proof]
#[kani::unwind(9)]
#[kani::stub(crate::magic::between, crate::vstubs::between_cf)]
#[kani::stub(crate::magic::line, crate::vstubs::line_cf)]
#[kani::stub(crate::magic::get_rook_moves, crate::vstubs::rook_moves_cf)]
fn c01_legals_rook_nocheck() {
    producer_check_n::<RookType, NotInCheckType>(sp::ROOK, 1);
}

// @ob id=O1.4r0t props=C01 tier=thorough kind=bounded weight=medium bound="at most 3 rooks of the mover" fn="PieceType::legals (default body) for RookType, NotInCheckType" desc="generic legals body for rooks, not in check"
#[kani::proof]
#[kani::unwind(9)]
#[kani::stub(crate::magic::between, crate::vstubs::between_cf)]
#[kani::stub(crate::magic::line, crate::vstubs::line_cf)]
#[kani::stub(crate::magic::get_rook_moves, crate::vstubs::rook_moves_cf)]
fn c01_legals_rook_nocheck_3() {
    producer_check_n::<RookType, NotInCheckType>(sp::ROOK, 3);
}

// @ob id=O1.4r1 props=C01 tier=quick kind=bounded weight=light bound="at most 1 rook of the mover (the Verus loop proof O1.4/O1.4n/O1.5 shows every entry depends only on its own source square); everything else symbolic (any valid position, symbolic king)" fn="PieceType::legals (default body) for RookType, InCheckType" desc="generic legals body for rooks, single check"
#[kani::proof]
#[kani::unwind(9)]
#[kani::stub(crate::magic::between, crate::vstubs::between_cf)]
#[kani::stub(crate::magic::line, crate::vstubs::line_cf)]
#[kani::stub(crate::magic::get_rook_moves, crate::vstubs::rook_moves_cf)]
fn c01_legals_rook_check() {
    producer_check_n::<RookType, InCheckType>(sp::ROOK, 1);
}

// @ob id=O1.4r1t props=C01 tier=thorough kind=bounded weight=medium bound="at most 3 rooks of the mover" fn="PieceType::legals (default body) for RookType, InCheckType" desc="generic legals body for rooks, single check"
#[kani::proof]
#[kani::unwind(9)]
#[kani::stub(crate::magic::between, crate::vstubs::between_cf)]
#[kani::stub(crate::magic::line, crate::vstubs::line_cf)]
#[kani::stub(crate::magic::get_rook_moves, crate::vstubs::rook_moves_cf)]
fn c01_legals_rook_check_3() {
    producer_check_n::<RookType, InCheckType>(sp::ROOK, 3);
}

// @ob id=O1.4q0 props=C01 tier=quick kind=bounded weight=light bound="at most 1 queen of the mover (the Verus loop proof O1.4/O1.4n/O1.5 shows every entry depends only on its own source square); everything else symbolic (any valid position, symbolic king)" fn="PieceType::legals (default body) for QueenType, NotInCheckType" desc="generic legals body for queens, not in check"
#[kani::proof]
#[kani::unwind(9)]
#[kani::stub(crate::magic::between, crate::vstubs::between_cf)]
#[kani::stub(crate::magic::line, crate::vstubs::line_cf)]
#[kani::stub(crate::magic::get_rook_moves, crate::vstubs::rook_moves_cf)]
#[kani::stub(crate::magic::get_bishop_moves, crate::vstubs::bishop_moves_cf)]
fn c01_legals_queen_nocheck() {
    producer_check_n::<QueenType, NotInCheckType>(sp::QUEEN, 1);
}

// @ob id=O1.4q0t props=C01 tier=thorough kind=bounded weight=medium bound="at most 3 queens of the mover" fn="PieceType::legals (default body) for QueenType, NotInCheckType" desc="generic legals body for queens, not in check"
#[kani::proof]
#[kani::unwind(9)]
#[kani::stub(crate::magic::between, crate::vstubs::between_cf)]
#[kani::stub(crate::magic::line, crate::vstubs::line_cf)]
#[kani::stub(crate::magic::get_rook_moves, crate::vstubs::rook_moves_cf)]
#[kani::stub(crate::magic::get_bishop_moves, crate::vstubs::bishop_moves_cf)]
fn c01_legals_queen_nocheck_3() {
    producer_check_n::<QueenType, NotInCheckType>(sp::QUEEN, 3);
}

// @ob id=O1.4q1 props=C01 tier=quick kind=bounded weight=light bound="at most 1 queen of the mover (the Verus loop proof O1.4/O1.4n/O1.5 shows every entry depends only on its own source square); everything else symbolic (any valid position, symbolic king)" fn="PieceType::legals (default body) for QueenType, InCheckType" desc="generic legals body for queens, single check"
#[kani::proof]
#[kani::unwind(9)]
#[kani::stub(crate::magic::between, crate::vstubs::between_cf)]
#[kani::stub(crate::magic::line, crate::vstubs::line_cf)]
#[kani::stub(crate::magic::get_rook_moves, crate::vstubs::rook_moves_cf)]
#[kani::stub(crate::magic::get_bishop_moves, crate::vstubs::bishop_moves_cf)]
fn c01_legals_queen_check() {
    producer_check_n::<QueenType, InCheckType>(sp::QUEEN, 1);
}

// @ob id=O1.4q1t props=C01 tier=thorough kind=bounded weight=medium bound="at most 3 queens of the mover" fn="PieceType::legals (default body) for QueenType, InCheckType" desc="generic legals body for queens, single check"
#[kani::proof]
#[kani::unwind(9)]
#[kani::stub(crate::magic::between, crate::vstubs::between_cf)]
#[kani::stub(crate::magic::line, crate::vstubs::line_cf)]
#[kani::stub(crate::magic::get_rook_moves, crate::vstubs::rook_moves_cf)]
#[kani::stub(crate::magic::get_bishop_moves, crate::vstubs::bishop_moves_cf)]
fn c01_legals_queen_check_3() {
    producer_check_n::<QueenType, InCheckType>(sp::QUEEN, 3);
}

// @ob id=O1.5p0 props=C01,C05 tier=quick kind=bounded weight=light bound="at most 1 pawn of the mover (the Verus loop proof O1.4/O1.4n/O1.5 shows every entry depends only on its own source square); everything else symbolic (any valid position, symbolic king)" fn="PawnType::legals::<NotInCheckType>" desc="real PawnType::legals, not in check: pushes/captures of unpinned pawns, pinned pawns along the king line, promotion flag exactly on the seventh rank, one extra entry per legal en-passant capture (definitional legality), none when no en-passant state"
#[kani::proof]
#[kani::unwind(9)]
#[kani::stub(crate::magic::between, crate::vstubs::between_cf)]
#[kani::stub(crate::magic::line, crate::vstubs::line_cf)]
#[kani::stub(crate::magic::get_pawn_moves, crate::vstubs::pawn_moves_cf)]
#[kani::stub(crate::magic::get_rank, crate::vstubs::rank_cf)]
#[kani::stub(crate::magic::get_adjacent_files, crate::vstubs::adjacent_files_cf)]
#[kani::stub(crate::magic::get_rook_moves, crate::vstubs::rook_moves_cf)]
#[kani::stub(crate::magic::get_bishop_moves, crate::vstubs::bishop_moves_cf)]
#[kani::stub(crate::magic::get_rook_rays, crate::vstubs::rook_rays_cf)]
#[kani::stub(crate::magic::get_bishop_rays, crate::vstubs::bishop_rays_cf)]
fn c01_legals_pawn_nocheck() {
    producer_check_n::<PawnType, NotInCheckType>(sp::PAWN, 1);
}

// @ob id=O1.5p0t props=C01,C05,C17 tier=thorough kind=bounded weight=medium bound="at most 3 pawns of the mover" fn="PawnType::legals::<NotInCheckType>" desc="real PawnType::legals, not in check: pushes/captures of unpinned pawns, pinned pawns along the king line, promotion flag exactly on the seventh rank, one extra entry per legal en-passant capture (definitional legality), none when no en-passant state"
#[kani::proof]
#[kani::unwind(9)]
#[kani::stub(crate::magic::between, crate::vstubs::between_cf)]
#[kani::stub(crate::magic::line, crate::vstubs::line_cf)]
#[kani::stub(crate::magic::get_pawn_moves, crate::vstubs::pawn_moves_cf)]
#[kani::stub(crate::magic::get_rank, crate::vstubs::rank_cf)]
#[kani::stub(crate::magic::get_adjacent_files, crate::vstubs::adjacent_files_cf)]
#[kani::stub(crate::magic::get_rook_moves, crate::vstubs::rook_moves_cf)]
#[kani::stub(crate::magic::get_bishop_moves, crate::vstubs::bishop_moves_cf)]
#[kani::stub(crate::magic::get_rook_rays, crate::vstubs::rook_rays_cf)]
#[kani::stub(crate::magic::get_bishop_rays, crate::vstubs::bishop_rays_cf)]
fn c01_legals_pawn_nocheck_3() {
    producer_check_n::<PawnType, NotInCheckType>(sp::PAWN, 3);
}

// @ob id=O1.5p1 props=C01,C05 tier=quick kind=bounded weight=light bound="at most 1 pawn of the mover (the Verus loop proof O1.4/O1.4n/O1.5 shows every entry depends only on its own source square); everything else symbolic (any valid position, symbolic king)" fn="PawnType::legals::<InCheckType>" desc="real PawnType::legals in single check, including the en-passant capture of a checking pawn"
#[kani::proof]
#[kani::unwind(9)]
#[kani::stub(crate::magic::between, crate::vstubs::between_cf)]
#[kani::stub(crate::magic::line, crate::vstubs::line_cf)]
#[kani::stub(crate::magic::get_pawn_moves, crate::vstubs::pawn_moves_cf)]
#[kani::stub(crate::magic::get_rank, crate::vstubs::rank_cf)]
#[kani::stub(crate::magic::get_adjacent_files, crate::vstubs::adjacent_files_cf)]
#[kani::stub(crate::magic::get_rook_moves, crate::vstubs::rook_moves_cf)]
#[kani::stub(crate::magic::get_bishop_moves, crate::vstubs::bishop_moves_cf)]
#[kani::stub(crate::magic::get_rook_rays, crate::vstubs::rook_rays_cf)]
#[kani::stub(crate::magic::get_bishop_rays, crate::vstubs::bishop_rays_cf)]
fn c01_legals_pawn_check() {
    producer_check_n::<PawnType, InCheckType>(sp::PAWN, 1);
}

// @ob id=O1.5p1t props=C01,C05 tier=thorough kind=bounded weight=medium bound="at most 3 pawns of the mover" fn="PawnType::legals::<InCheckType>" desc="real PawnType::legals in single check, including the en-passant capture of a checking pawn"
#[kani::proof]
#[kani::unwind(9)]
#[kani::stub(crate::magic::between, crate::vstubs::between_cf)]
#[kani::stub(crate::magic::line, crate::vstubs::line_cf)]
#[kani::stub(crate::magic::get_pawn_moves, crate::vstubs::pawn_moves_cf)]
#[kani::stub(crate::magic::get_rank, crate::vstubs::rank_cf)]
#[kani::stub(crate::magic::get_adjacent_files, crate::vstubs::adjacent_files_cf)]
#[kani::stub(crate::magic::get_rook_moves, crate::vstubs::rook_moves_cf)]
#[kani::stub(crate::magic::get_bishop_moves, crate::vstubs::bishop_moves_cf)]
#[kani::stub(crate::magic::get_rook_rays, crate::vstubs::rook_rays_cf)]
#[kani::stub(crate::magic::get_bishop_rays, crate::vstubs::bishop_rays_cf)]
fn c01_legals_pawn_check_3() {
    producer_check_n::<PawnType, InCheckType>(sp::PAWN, 3);
}

// @ob id=O1.5e2 props=C01,C05,C17 tier=quick kind=bounded weight=light bound="exactly the positions WITH en-passant state, at most 2 pawns of the mover (both may stand beside the pushed pawn)" fn="PawnType::legals::<NotInCheckType>" desc="the en-passant block with two candidate capturers: each gets its own entry exactly when ITS capture is legal (one may be pinned while the other is not), single destination behind the pushed pawn, never flagged as promotion"
#[kani::proof]
#[kani::unwind(9)]
#[kani::stub(crate::magic::between, crate::vstubs::between_cf)]
#[kani::stub(crate::magic::line, crate::vstubs::line_cf)]
#[kani::stub(crate::magic::get_pawn_moves, crate::vstubs::pawn_moves_cf)]
#[kani::stub(crate::magic::get_rank, crate::vstubs::rank_cf)]
#[kani::stub(crate::magic::get_adjacent_files, crate::vstubs::adjacent_files_cf)]
#[kani::stub(crate::magic::get_rook_moves, crate::vstubs::rook_moves_cf)]
#[kani::stub(crate::magic::get_bishop_moves, crate::vstubs::bishop_moves_cf)]
#[kani::stub(crate::magic::get_rook_rays, crate::vstubs::rook_rays_cf)]
#[kani::stub(crate::magic::get_bishop_rays, crate::vstubs::bishop_rays_cf)]
fn c01_legals_pawn_ep2() {
    producer_check_ep::<PawnType, NotInCheckType>(sp::PAWN, 2);
}

/// king producer: steps by definition with the king lifted, castling per Art. 3.8.2
fn king_producer_check<C: CheckType>() {
    let (b, pos, ch, _pin) = any_valid_wf_board();
    let me = pos.stm;
    kani::assume(if C::IN_CHECK { ch != 0 } else { ch == 0 });
    let mut list = new_list();
    KingType::legals::<C>(&mut list, &b, BitBoard(!pos.colors[me]));
    assert!(list.len() <= 1);
    let d = any_sq_u8();
    let k = pos.king_sq(me);
    let base = sp::s_back_rank(me);
    let mut want = sp::s_king_step_legal(&pos, d);
    if k == base + 4 && d == base + 6 && sp::s_castle_legal(&pos, true) {
        want = true;
    }
    if k == base + 4 && d == base + 2 && sp::s_castle_legal(&pos, false) {
        want = true;
    }
    let got = list.len() == 1 && e_bits(&list[0]) & sp::bit(d) != 0;
    assert!(got == want);
    if list.len() == 1 {
        assert!(e_square(&list[0]) == k && e_bits(&list[0]) != 0 && !e_promo(&list[0]));
    }
    if !C::IN_CHECK {
        kani::cover!(want && (d == base + 6 || d == base + 2) && k == base + 4);
    } else {
        kani::cover!(want);
    }
}

// @ob id=O1.6k0 props=C01 also=C17 tier=quick kind=proof weight=light fn="KingType::legals::<NotInCheckType>" desc="complete (one king, no piece-count bound): the king entry holds exactly the steps onto squares not attacked once the king is lifted, plus the castling target exactly when the right is held, king and rook stand on their home squares, the squares between are empty and the king neither stands on, crosses nor lands on an attacked square; symbolic king, every valid position"
#[kani::proof]
#[kani::unwind(9)]
#[kani::stub(crate::magic::get_rook_moves, crate::vstubs::rook_moves_cf)]
#[kani::stub(crate::magic::get_bishop_moves, crate::vstubs::bishop_moves_cf)]
#[kani::stub(crate::magic::get_knight_moves, crate::vstubs::knight_moves_cf)]
#[kani::stub(crate::magic::get_king_moves, crate::vstubs::king_moves_cf)]
#[kani::stub(crate::magic::get_pawn_attacks, crate::vstubs::pawn_attacks_cf)]
fn c01_legals_king_nocheck() {
    king_producer_check::<NotInCheckType>();
}

// @ob id=O1.6k1 props=C01 tier=quick kind=proof weight=light fn="KingType::legals::<InCheckType>" desc="complete: in single or double check the king entry holds exactly the safe steps and never a castling target"
#[kani::proof]
#[kani::unwind(9)]
#[kani::stub(crate::magic::get_rook_moves, crate::vstubs::rook_moves_cf)]
#[kani::stub(crate::magic::get_bishop_moves, crate::vstubs::bishop_moves_cf)]
#[kani::stub(crate::magic::get_knight_moves, crate::vstubs::knight_moves_cf)]
#[kani::stub(crate::magic::get_king_moves, crate::vstubs::king_moves_cf)]
#[kani::stub(crate::magic::get_pawn_attacks, crate::vstubs::pawn_attacks_cf)]
fn c01_legals_king_check() {
    king_producer_check::<InCheckType>();
}

// ------------------------------------------------------------------------------------------ S2: the shortcut is right (code-independent)

fn s2_lemma(pt: usize) {
    let b = any_board();
    let pos = to_pos(&b);
    kani::assume(sp::s_valid_core(&pos));
    let (ch, pin) = sp::s_check_pin(&pos);
    let (s, d) = (any_sq_u8(), any_sq_u8());
    kani::assume(pos.piece_at(s) == Some(pt) && pos.color_at(s) == Some(pos.stm));
    let last = if pos.stm == 0 { 7 } else { 0 };
    let promo = if pt == sp::PAWN && sp::rank_of(d) == last { Some(sp::QUEEN) } else { None };
    let mv = sp::Mv { src: s, dst: d, promo };
    kani::assume(!sp::s_is_ep_capture(&pos, &mv));
    assert!((sp::s_legal2_set(&pos, s, ch, pin) & sp::bit(d) != 0) == sp::s_legal(&pos, &mv));
    if pt != sp::KNIGHT {
        kani::cover!(pin & sp::bit(s) != 0 && sp::s_legal(&pos, &mv));
    }
    kani::cover!(ch != 0 && sp::s_legal(&pos, &mv));
}

// @ob id=S2.n props=C01 tier=quick kind=lemma cache=yes deps=s2_lemma weight=medium fn="spec: s_legal2_set,s_legal (knights)" desc="code-independent chess lemma: for every valid position and every own knight, the pin/check-mask shortcut (double check: none; single check: capture or interpose; pinned: never) gives exactly the moves after which the own king is not attacked (definitional legality, flood-fill attack spec)"
#[kani::proof]
#[kani::unwind(9)]
fn spec_s2_knight() {
    s2_lemma(sp::KNIGHT);
}
// @ob id=S2.b props=C01 tier=quick kind=lemma cache=yes deps=s2_lemma weight=medium fn="spec: s_legal2_set,s_legal (bishops)" desc="S2 for bishops: pinned bishops move exactly along the line through the king when not in check"
#[kani::proof]
#[kani::unwind(9)]
fn spec_s2_bishop() {
    s2_lemma(sp::BISHOP);
}
// @ob id=S2.r props=C01 tier=quick kind=lemma cache=yes deps=s2_lemma weight=medium fn="spec: s_legal2_set,s_legal (rooks)" desc="S2 for rooks"
#[kani::proof]
#[kani::unwind(9)]
fn spec_s2_rook() {
    s2_lemma(sp::ROOK);
}
// @ob id=S2.q props=C01 tier=quick kind=lemma cache=yes deps=s2_lemma weight=medium fn="spec: s_legal2_set,s_legal (queens)" desc="S2 for queens"
#[kani::proof]
#[kani::unwind(9)]
fn spec_s2_queen() {
    s2_lemma(sp::QUEEN);
}
// @ob id=S2.p props=C01 tier=quick kind=lemma cache=yes deps=s2_lemma weight=medium fn="spec: s_legal2_set,s_legal (pawn pushes and captures)" desc="S2 for pawn pushes, double pushes, captures and promotions (en-passant captures are specified definitionally and need no shortcut lemma)"
#[kani::proof]
#[kani::unwind(9)]
fn spec_s2_pawn() {
    s2_lemma(sp::PAWN);
}
// @ob id=S2.k props=C01 tier=quick kind=lemma cache=yes weight=light fn="spec: s_king_step_legal,s_castle_legal,s_legal (king)" desc="S2 for the king: a step is legal iff the destination is not attacked with the king lifted; castling that satisfies Art. 3.8.2 (right, home squares, empty path, king not in check, transit and target not attacked) never leaves the king attacked on its target square"
#[kani::proof]
#[kani::unwind(9)]
fn spec_s2_king() {
    let b = any_board();
    let pos = to_pos(&b);
    kani::assume(sp::s_valid_core(&pos));
    let k = pos.king_sq(pos.stm);
    let d = any_sq_u8();
    let mv = sp::Mv { src: k, dst: d, promo: None };
    if sp::s_is_castle(&pos, &mv) {
        let base = sp::s_back_rank(pos.stm);
        let want = k == base + 4 && ((d == base + 6 && sp::s_castle_legal(&pos, true)) || (d == base + 2 && sp::s_castle_legal(&pos, false)));
        assert!(want == sp::s_legal(&pos, &mv));
    } else {
        assert!(sp::s_king_step_legal(&pos, d) == sp::s_legal(&pos, &mv));
    }
}

// @ob id=O1.canary props=C01 tier=quick kind=canary fn="KingType::legal_king_move" desc="deliberately false: a king may never step next to an enemy pawn's file — must FAIL"
#[kani::proof]
#[kani::unwind(9)]
#[kani::stub(crate::magic::get_rook_moves, crate::vstubs::rook_moves_cf)]
#[kani::stub(crate::magic::get_bishop_moves, crate::vstubs::bishop_moves_cf)]
fn c01_canary() {
    let b = any_board();
    assert!(!KingType::legal_king_move(&b, any_square()));
}
