#!/bin/bash
# runs every claimed quick check sequentially on /repo, prints wall time and exit code per property
cd /verif
for p in $(python3 -c "import json;print(' '.join(c['property_id'] for c in json.load(open('MANIFEST.json'))['checks']))"); do
  s=$(date +%s); out=$(VERIF_SEED=${VERIF_SEED:-1} ./check $p --tier ${1:-quick} 2>&1 | grep -v "^WARNING" | tail -4); rc=$?
  e=$(date +%s); echo "== $p wall=$((e-s))s :: $(echo "$out" | tr '\n' ' ' | cut -c1-400)"
done
