#!/bin/sh
# setup: nothing to build ahead of time — every check rebuilds from /repo's working tree.
# Verify the tools the checks need are present and work offline.
set -e
cd "$(dirname "$0")/.."
command -v cargo-kani >/dev/null || { echo "cargo-kani missing"; exit 1; }
command -v verus >/dev/null || { echo "verus missing"; exit 1; }
command -v cbmc >/dev/null || { echo "cbmc missing"; exit 1; }
python3 -c "import json,sys; json.load(open('MANIFEST.json'))"
mkdir -p evidence replays logs
echo "setup ok"
