#!/usr/bin/env python3
"""vf.py — driver library for the contract-based verification of jordanbray/chess.

Back ends:
  * Kani (cargo kani) on an instrumented full copy of /repo's working tree
  * Verus (single file) on functions extracted mechanically from /repo's working tree
  * native (cargo run) exhaustive enumerators / witness searches linked against a copy of /repo

Exit codes of a check:  0 held / known findings only,  1 VIOLATION,  2 UNDECIDED (tool limit, lost anchor).
"""
import hashlib
import json
import os
import re
import shlex
import shutil
import subprocess
import sys
import time
from pathlib import Path

VERIF = Path(__file__).resolve().parent.parent
REPO = Path(os.environ.get("VERIF_REPO", "/repo"))
SCRATCH_ROOT = Path(os.environ.get("VERIF_SCRATCH", "/var/tmp/chess-verif"))
KANI_DIR = VERIF / "kani"
VERUS_DIR = VERIF / "verus"
NATIVE_DIR = VERIF / "native"
EVID_DIR = VERIF / "evidence"
REPLAY_DIR = VERIF / "replays"
KNOWN = VERIF / "known_findings.txt"

KANI_FLAGS = ["-Z", "stubbing", "-Z", "function-contracts", "-Z", "unstable-options"]

# harness module file -> (repo module file it becomes a child of, rust module path of that file)
HARNESS_HOME = {
    "k_bitboard.rs": ("src/bitboard.rs", "bitboard"),
    "k_square.rs": ("src/square.rs", "square"),
    "k_magic.rs": ("src/magic.rs", "magic"),
    "k_board.rs": ("src/board.rs", "board"),
    "k_zobrist.rs": ("src/zobrist.rs", "zobrist"),
    "k_castle.rs": ("src/castle_rights.rs", "castle_rights"),
    "k_chess_move.rs": ("src/chess_move.rs", "chess_move"),
    "k_piece_type.rs": ("src/movegen/piece_type.rs", "movegen::piece_type"),
    "k_movegen.rs": ("src/movegen/movegen.rs", "movegen::movegen"),
    "k_builder.rs": ("src/board_builder.rs", "board_builder"),
    "k_cache.rs": ("src/cache_table.rs", "cache_table"),
    "k_game.rs": ("src/game.rs", "game"),
    "k_spec.rs": ("src/lib.rs", ""),
}
# support modules declared at the crate root of the copy
ROOT_SUPPORT = ["vspec", "vstubs", "vhelp"]


class Undecided(Exception):
    pass


def log(*a):
    print(*a, file=sys.stderr, flush=True)


def sh(cmd, cwd=None, timeout=None, env=None):
    e = dict(os.environ)
    e["CARGO_NET_OFFLINE"] = "true"
    if env:
        e.update(env)
    t0 = time.time()
    try:
        p = subprocess.run(cmd, cwd=cwd, env=e, stdout=subprocess.PIPE, stderr=subprocess.STDOUT, timeout=timeout, text=True, errors="replace")
        return p.returncode, p.stdout, time.time() - t0
    except subprocess.TimeoutExpired as ex:
        out = ex.stdout if isinstance(ex.stdout, str) else (ex.stdout or b"").decode("utf8", "replace")
        return 124, out + "\n[vf] TIMEOUT", time.time() - t0


# ----------------------------------------------------------------------------------------------
# obligation registry: parsed from `// @ob key=value ...` lines in kani/*.rs and verus/*.vrs
# ----------------------------------------------------------------------------------------------
TAG_RE = re.compile(r'(\w+)=("([^"]*)"|\S+)')


class Ob:
    def __init__(self, d, file, backend):
        self.d = d
        self.file = file
        self.backend = backend
        self.id = d.get("id", "?")
        self.props = d.get("props", "").split(",")
        self.also = [x for x in d.get("also", "").split(",") if x]
        self.tier = d.get("tier", "quick")
        self.kind = d.get("kind", "proof")  # proof | bounded | canary | lemma
        self.fn = d.get("fn", "")
        self.desc = d.get("desc", "")
        self.bound = d.get("bound", "")
        self.gen = d.get("gen", "")
        self.weight = d.get("weight", "light")
        self.name = d.get("name", "")  # harness fn name (filled by scanner)
        self.unwind = d.get("unwind", "")
        self.attrs = d.get("attrs", "")
        self.qsel = d.get("qsel", "")  # for generated families: how many instances run in the quick tier

    def in_tier(self, tier):
        return tier == "thorough" or self.tier == "quick"

    def serves(self, prop, tier):
        """primary obligations run in every tier; `also=` obligations (proved under another property's quick check)
        are re-run for this property only in the thorough tier and listed as dependencies in the quick evidence"""
        return prop in self.props or (tier == "thorough" and prop in self.also)


def parse_tags(line):
    d = {}
    for m in TAG_RE.finditer(line):
        d[m.group(1)] = m.group(3) if m.group(3) is not None else m.group(2)
    return d


def scan_kani_obligations():
    obs = []
    for f in sorted(KANI_DIR.glob("k_*.rs")):
        lines = f.read_text().splitlines()
        i = 0
        while i < len(lines):
            ln = lines[i].strip()
            if ln.startswith("// @ob "):
                d = parse_tags(ln[7:])
                # continuation lines `// @+ key=value`
                j = i + 1
                while j < len(lines) and lines[j].strip().startswith("// @+ "):
                    d.update(parse_tags(lines[j].strip()[6:]))
                    j += 1
                # find fn name
                k = j
                while k < len(lines):
                    m = re.match(r"\s*(pub(\(crate\))?\s+)?fn\s+(\w+)", lines[k])
                    if m:
                        d["name"] = m.group(3)
                        break
                    k += 1
                obs.append(Ob(d, f.name, "kani"))
                i = j
            else:
                i += 1
    return obs


SQN = [f + r for r in "12345678" for f in "abcdefgh"]


def king_instances(ob, tier, seed):
    """instances of a per-king-square family: list of (suffix, colour, square); `gen=range:N` gives (i, 0, i) for i < N"""
    if ob.gen.startswith("range:"):
        n = int(ob.gen.split(":")[1])
        allr = [("i%02d" % i, 0, i) for i in range(n)]
        if tier == "thorough" or not ob.qsel:
            return allr
        k = int(ob.qsel)
        # always the two extreme instances, the rest rotated by the seed
        idx = [0, n - 1]
        j = seed % n
        while len(idx) < k:
            j = (j * 5 + 3) % n
            if j not in idx:
                idx.append(j)
            else:
                j += 1
        return [allr[i] for i in sorted(idx)]
    allv = [(("w" if c == 0 else "b") + "_" + SQN[s], c, s) for c in (0, 1) for s in range(64)]
    if tier == "thorough" or not ob.qsel:
        return allv
    n = int(ob.qsel)
    # fixed representatives (corner, edge, home squares, centre) + seed-rotated remainder
    fixed = [(0, 27), (1, 36), (0, 4), (1, 60), (0, 0), (1, 63), (1, 27), (0, 36), (0, 7), (1, 56)]
    chosen = []
    for c, s in fixed:
        if len(chosen) < max(1, n - 1):
            chosen.append((c, s))
    k = seed
    while len(chosen) < n:
        k = (k * 6364136223846793005 + 1442695040888963407) & ((1 << 64) - 1)
        c, s = (k >> 40) & 1, (k >> 33) & 63
        if (c, s) not in chosen:
            chosen.append((c, s))
    return [(("w" if c == 0 else "b") + "_" + SQN[s], c, s) for c, s in chosen]


# ----------------------------------------------------------------------------------------------
# instrumented copy
# ----------------------------------------------------------------------------------------------
FAILURE_RE = re.compile(r'^failure\s*=\s*"([^"]+)"\s*$', re.M)


def repo_tree_hash():
    h = hashlib.sha256()
    for p in sorted((REPO / "src").rglob("*")):
        if p.is_file():
            h.update(str(p.relative_to(REPO)).encode())
            h.update(p.read_bytes())
    for n in ("Cargo.toml", "Cargo.lock"):
        h.update((REPO / n).read_bytes())
    return h.hexdigest()[:16]


def make_copy(work: Path, generated: str = "", extra_files=None):
    """Copy /repo's working tree and splice the harness modules in.  Returns a dict describing
    exactly what differs from /repo (the extraction diff of the evidence)."""
    if work.exists():
        shutil.rmtree(work)
    work.mkdir(parents=True)
    shutil.copytree(REPO / "src", work / "src")
    for n in ("Cargo.toml", "Cargo.lock"):
        shutil.copy(REPO / n, work / n)
    diff = {"cargo_toml": [], "appended": {}, "added_files": []}
    ct = (work / "Cargo.toml").read_text()
    n = len(FAILURE_RE.findall(ct))
    if n == 0:
        # already feature-restricted or dependency removed: accept if kani can build
        diff["cargo_toml"].append("no plain `failure = \"x\"` line found; Cargo.toml left as is")
    else:
        ct2 = FAILURE_RE.sub(lambda m: 'failure = { version = "%s", default-features = false, features = ["derive"] }' % m.group(1), ct)
        (work / "Cargo.toml").write_text(ct2)
        diff["cargo_toml"].append("%d x `failure = \"..\"` -> default-features=false, features=[\"derive\"] (drops the backtrace integration only)" % n)
    (work / ".cargo").mkdir()
    (work / ".cargo" / "config.toml").write_text("[net]\noffline = true\n")
    vdir = work / "src" / "verif"
    vdir.mkdir()
    shutil.copy(VERIF / "spec" / "rules.rs", vdir / "vspec.rs")
    diff["added_files"].append("src/verif/vspec.rs (= /verif/spec/rules.rs)")
    for f in sorted(KANI_DIR.glob("*.rs")):
        shutil.copy(f, vdir / f.name)
        diff["added_files"].append("src/verif/" + f.name)
    if generated:
        (vdir / "k_generated.rs").write_text(generated)
    for k, v in (extra_files or {}).items():
        (vdir / k).write_text(v)
    # module declarations (pure additions at the end of existing files)
    root_add = "\n"
    for m in ROOT_SUPPORT:
        if (vdir / (m + ".rs")).exists():
            root_add += '#[cfg(kani)]\n#[path = "%s"]\n#[allow(dead_code, unused)]\npub(crate) mod %s;\n' % (vdir / (m + ".rs"), m)
    for hf, (home, _mod) in HARNESS_HOME.items():
        if not (vdir / hf).exists():
            continue
        target = work / home
        if not target.exists():
            raise Undecided("lost anchor: module file %s no longer exists" % home)
        add = '\n#[cfg(kani)]\n#[path = "%s"]\n#[allow(dead_code, unused)]\npub(crate) mod %s;\n' % (vdir / hf, hf[:-3])
        if home == "src/lib.rs":
            root_add += add
        else:
            with open(target, "a") as fh:
                fh.write(add)
            diff["appended"][home] = add.strip().replace("\n", " ")
    with open(work / "src" / "lib.rs", "a") as fh:
        fh.write(root_add)
    diff["appended"]["src/lib.rs"] = root_add.strip().replace("\n", " ")
    # prove the copy is /repo + pure appends
    for p in sorted((REPO / "src").rglob("*.rs")):
        rel = p.relative_to(REPO)
        a = p.read_text()
        b = (work / rel).read_text()
        if not b.startswith(a):
            raise Undecided("internal: copy of %s is not an extension of the original" % rel)
    return diff


def full_harness_name(ob_file, fn):
    mod = HARNESS_HOME[ob_file][1]
    base = (mod + "::" if mod else "") + ob_file[:-3]
    return base + "::" + fn


STUBSETS = {
    "geom": [("crate::magic::between", "crate::vstubs::between_cf"), ("crate::magic::line", "crate::vstubs::line_cf"),
             ("crate::magic::get_bishop_rays", "crate::vstubs::bishop_rays_cf"), ("crate::magic::get_rook_rays", "crate::vstubs::rook_rays_cf"),
             ("crate::magic::get_knight_moves", "crate::vstubs::knight_moves_cf"), ("crate::magic::get_king_moves", "crate::vstubs::king_moves_cf"),
             ("crate::magic::get_pawn_attacks", "crate::vstubs::pawn_attacks_cf")],
    "sliders": [("crate::magic::get_rook_moves", "crate::vstubs::rook_moves_cf"), ("crate::magic::get_bishop_moves", "crate::vstubs::bishop_moves_cf")],
    "pawns": [("crate::magic::get_pawn_moves", "crate::vstubs::pawn_moves_cf"), ("crate::magic::get_pawn_quiets", "crate::vstubs::pawn_quiets_cf")],
    "rankfile": [("crate::magic::get_rank", "crate::vstubs::rank_cf"), ("crate::magic::get_file", "crate::vstubs::file_cf"),
                 ("crate::magic::get_adjacent_files", "crate::vstubs::adjacent_files_cf")],
}


def gen_instances_source(fams):
    """fams: list of (ob, instances).  Emits one #[kani::proof] per instance into the family's own module
    through an `include!`-free route: the generated functions live in the harness module itself via a macro
    invocation appended to the harness file copy."""
    out = {}
    for ob, inst in fams:
        src = []
        for suffix, c, s in inst:
            src.append("#[kani::proof]")
            if ob.unwind:
                src.append("#[kani::unwind(%s)]" % ob.unwind)
            for ss in (ob.d.get("stubs", "") or "").split(","):
                for a, b in STUBSETS.get(ss.strip(), []):
                    src.append("#[kani::stub(%s, %s)]" % (a, b))
            if ob.attrs:
                for a in ob.attrs.split(";"):
                    a = a.strip()
                    if a:
                        src.append("#[kani::%s]" % a)
            src.append("fn %s__%s() { %s(%d, %d); }" % (ob.name, suffix, ob.name, c, s))
        out.setdefault(ob.file, []).extend(src)
    return out


# ----------------------------------------------------------------------------------------------
# running Kani
# ----------------------------------------------------------------------------------------------
UNDECIDED_MARKERS = ("unwinding assertion", "unsupported", "not currently supported", "recursion unwinding")


def run_kani(work: Path, names, jobs, timeout_s, log_path: Path):
    """names: fully qualified harness names.  Returns (results dict name -> record, raw_output)."""
    if not names:
        return {}, ""
    out_json = work / ("kani_out_%d.json" % int(time.time() * 1000))
    cmd = ["cargo", "kani"] + KANI_FLAGS + ["-j", str(jobs), "--output-format", "terse", "--harness-timeout", "%ds" % timeout_s,
                                            "--export-json", str(out_json), "--exact"]
    for n in names:
        cmd += ["--harness", n]
    rc, out, wall = sh(cmd, cwd=work, timeout=timeout_s * max(1, (len(names) + jobs - 1) // jobs) + 1800)
    with open(log_path, "a") as fh:
        fh.write("$ " + " ".join(shlex.quote(c) for c in cmd) + "\n" + out + "\n")
    res = {}
    if not out_json.exists():
        # compile error or tool crash
        tail = "\n".join([l for l in out.splitlines() if not l.startswith(("warning", " ", "\t")) or "error" in l][-60:])
        raise Undecided("kani produced no result file (compile error / tool crash):\n" + tail)
    data = json.loads(out_json.read_text())
    pd = {x["harness_id"]: x["property_details"] for x in data.get("property_details", [])}
    cb = {x["harness_id"]: x for x in data.get("cbmc", [])}
    for r in data.get("verification_results", {}).get("results", []):
        hid = r["harness_id"]
        failed = [c for c in r.get("checks", []) if c.get("status") not in ("Success", "Satisfied", "Unreachable", "Covered")]
        res[hid] = {
            "status": r["status"],
            "seconds": r.get("duration_ms", 0) / 1000.0,
            "failed_checks": [{"description": c.get("description"), "status": c.get("status"), "category": c.get("category"),
                               "location": "%s:%s" % (c.get("location", {}).get("file"), c.get("location", {}).get("line")),
                               "function": c.get("function")} for c in failed][:12],
            "props": pd.get(hid) or {},
            "cbmc": (cb.get(hid) or {}).get("cbmc_stats") or {},
            "solver": ((cb.get(hid) or {}).get("configuration") or {}).get("solver", "cadical"),
        }
    # harnesses that never reported (timeout / crash)
    for n in names:
        if n not in res:
            res[n] = {"status": "NoResult", "seconds": 0, "failed_checks": [], "props": {}, "cbmc": {}, "solver": ""}
    # timeouts are reported in the text output
    for m in re.finditer(r"harness ([\w:]+) timed out|Harness ([\w:]+) timed out|timed out.*?([\w:]+::k_\w+::\w+)", out):
        n = next((g for g in m.groups() if g), None)
        if n in res:
            res[n]["status"] = "Timeout"
    return res, out


def classify(rec, kind):
    """-> 'ok' | 'violation' | 'undecided' (with reason)"""
    st = rec["status"]
    if kind == "canary":
        if st == "Failure":
            return "ok", ""
        return "undecided", "canary obligation did not fail (status %s): the back end no longer separates true from false" % st
    if st == "Success":
        p = rec.get("props", {})
        if p.get("unsatisfiable", 0) or p.get("uncovered", 0):
            return "undecided", "vacuity guard: a cover! is unsatisfiable (precondition excludes everything)"
        if p.get("undetermined", 0):
            return "undecided", "undetermined checks"
        return "ok", ""
    if st == "Failure":
        fc = rec["failed_checks"]
        real = [c for c in fc if not any(mk in (c.get("description") or "").lower() for mk in UNDECIDED_MARKERS) and c.get("status") == "Failure"]
        if real:
            return "violation", "; ".join("%s @ %s" % (c["description"], c["location"]) for c in real[:4])
        if not fc:
            return "undecided", "failure without failed checks (tool error)"
        return "undecided", "only tool-limit checks failed: " + "; ".join((c.get("description") or "") for c in fc[:3])
    return "undecided", "status %s (timeout, out of memory or tool crash)" % st


PLAYBACK_RE = re.compile(r"```\n(.*?)```", re.S)


def kani_playback(work: Path, ob_file, fq_name, log_path: Path, timeout_s=1200):
    """Re-run one failed harness with concrete playback, splice the generated unit test into the harness module
    and execute it natively (no stubs, real tables) with `cargo kani playback`."""
    cmd = ["cargo", "kani"] + KANI_FLAGS + ["-Z", "concrete-playback", "--concrete-playback=print", "--exact", "--harness", fq_name]
    rc, out, _ = sh(cmd, cwd=work, timeout=timeout_s)
    with open(log_path, "a") as fh:
        fh.write("$ " + " ".join(cmd) + "\n" + out[-20000:] + "\n")
    tests = PLAYBACK_RE.findall(out)
    if not tests:
        return {"generated": False, "note": "verifier produced no concrete counterexample"}
    test_src = tests[0]
    m = re.search(r"fn (kani_concrete_playback_\w+)", test_src)
    tname = m.group(1) if m else None
    vals = re.findall(r"//\s*(.*)\n\s*vec!\[([^\]]*)\]", test_src)
    hf = work / "src" / "verif" / ob_file
    # splice only the test item: the doc comment Kani prints above it quotes the failed assertion, and a multi-line
    # assertion text breaks out of the `///` lines (unterminated string => the whole copy no longer compiles)
    i_test = test_src.find("#[test]")
    splice = test_src[i_test:] if i_test >= 0 else test_src
    original = hf.read_text()
    hf.write_text(original + "\n" + splice + "\n")
    try:
        rc2, out2, _ = sh(["cargo", "kani", "playback", "-Z", "concrete-playback", "--", tname], cwd=work, timeout=timeout_s)
    finally:
        hf.write_text(original)
    with open(log_path, "a") as fh:
        fh.write("$ cargo kani playback -- %s\n%s\n" % (tname, out2[-8000:]))
    panicked = "panicked at" in out2 and "test result: FAILED" in out2
    passed = "test result: ok" in out2
    pm = re.search(r"panicked at ([^\n]*)\n([^\n]*)", out2)
    return {
        "generated": True,
        "test_name": tname,
        "concrete_values": [{"comment": c.strip(), "bytes": b.strip()} for c, b in vals],
        "test_source": test_src,
        "native_replay": "reproduced (native run of the harness on the real code, real tables, no stubs, panics)" if panicked else
                         ("NOT reproduced natively (only the stubbed callee contract is violated, or the failure is a memory-safety check the native run cannot observe)" if passed else "replay did not run"),
        "native_panic": (pm.group(1) + " " + pm.group(2)) if pm else "",
    }


# ----------------------------------------------------------------------------------------------
# known findings
# ----------------------------------------------------------------------------------------------
def load_known():
    """lines:  finding: property=C11 obligation=<name> <text>      |  fixed: property=C14 <commit> <text>"""
    out = []
    if KNOWN.exists():
        for ln in KNOWN.read_text().splitlines():
            ln = ln.strip()
            if ln.startswith("finding:"):
                d = parse_tags(ln)
                out.append({"property": d.get("property"), "obligation": d.get("obligation"), "text": ln[len("finding:"):].strip()})
    return out


def write_json(path: Path, obj):
    path.parent.mkdir(parents=True, exist_ok=True)
    tmp = path.with_suffix(".tmp")
    tmp.write_text(json.dumps(obj, indent=1, sort_keys=False))
    tmp.replace(path)


# ----------------------------------------------------------------------------------------------
# cache of code-independent lemma proofs
# ----------------------------------------------------------------------------------------------
CACHE = VERIF / "cache" / "lemmas.json"


def _fn_text(path: Path, name):
    import rustscan as rs
    t = path.read_text()
    r = rs.find_fn_in(t, 0, len(t), name)
    return t[r[0]:r[3] + 1] if r and r[2] >= 0 else "?" + name


def lemma_key(ob):
    h = hashlib.sha256()
    h.update((VERIF / "spec" / "rules.rs").read_bytes())
    h.update((KANI_DIR / "vhelp.rs").read_bytes())
    kb = KANI_DIR / "k_board.rs"
    for fn in ("to_pos", "any_rights", "any_ep", "any_raw_board", "any_board", "any_move", "any_promo", "to_mv"):
        h.update(_fn_text(kb, fn).encode())
    hf = KANI_DIR / ob.file
    h.update(_fn_text(hf, ob.name).encode())
    for dep in (ob.d.get("deps", "") or "").split(","):
        if dep.strip():
            h.update(_fn_text(hf, dep.strip()).encode())
    h.update(b"kani-0.68.0 cbmc-6.11.0")
    return h.hexdigest()


def lemma_cache_get(ob):
    if not CACHE.exists():
        return None
    d = json.loads(CACHE.read_text())
    k = lemma_key(ob)
    e = d.get(k)
    if e and e.get("name") == ob.name:
        e = dict(e)
        e["key"] = k
        return e
    return None


def lemma_cache_put(ob, rec):
    CACHE.parent.mkdir(exist_ok=True)
    d = json.loads(CACHE.read_text()) if CACHE.exists() else {}
    d[lemma_key(ob)] = {"name": ob.name, "id": ob.id, "seconds": rec.get("seconds", 0), "checks": rec.get("props", {}).get("total_properties", 0),
                        "date": time.strftime("%Y-%m-%d")}
    write_json(CACHE, d)
