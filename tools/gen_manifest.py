#!/usr/bin/env python3
"""Regenerates /verif/MANIFEST.json from the table below (single place where claims are stated)."""
import json
from pathlib import Path

VERIF = Path(__file__).resolve().parent.parent

TRUST = ("rustc; Kani 0.68 MIR->GOTO translation + CBMC 6.11 + CaDiCaL (bit-precise machine arithmetic); Verus 0.2026.09.13 + Z3; "
         "verification copy differs from /repo only by the `failure` feature line in Cargo.toml and appended cfg(kani) modules; "
         "the specification library /verif/spec/rules.rs (cross-checked by code-independent self-check obligations); ")

CLAIMS = {
    "C20": dict(
        category="proof",
        text="Every operator impl and method of BitBoard is checked against its set-theoretic meaning for all 2^64 (resp. 2^128) operand values by loop-free Kani harnesses on the real code; iteration is proved by an inductive step over the next() contract (whole-loop form in the thorough tier).",
        design_ref="DESIGN.md §6 C20",
        note=TRUST + "no stubs, no bounds.",
        technique="Kani/CBMC full-domain functional contracts on the real impls + inductive-step obligation for iteration",
    ),
}

CLAIMS["C16"] = dict(
    category="proof",
    text="Every exported geometry accessor (between, line, rays, king/knight/pawn sets, ranks, files, edges, castle and double-move constants) and every Square/File/Rank/Color stepping helper is compared with its coordinate definition over its full domain (all squares, pairs, colours, blocker sets) on the real generated tables by Kani; unchecked table indices are proved in bounds.",
    design_ref="DESIGN.md §6 C16",
    note=TRUST + "full domain, no stubs, no bounds; the build-script generators are covered through their output (the tables compiled into the crate).",
    technique="Kani/CBMC full-domain functional contracts on table accessors and step helpers + code-independent spec self-check lemmas",
)

CLAIMS["C15"] = dict(
    category="proof",
    text="Decomposed proof. Deductive (Kani, real tables): for every square and every 64-bit occupancy the magic index is in bounds and the stored mask equals the relevant-square set; code-independent frame lemma walk(sq,occ)==walk(sq,occ&relevant); full per-square proofs of lookup==ray walk over all 2^64 occupancies on the real 104960-entry table for 2 seed-chosen (piece,square) instances per quick run and all 128 in the thorough tier. Non-deductive and reported separately: complete native enumeration of every subset of the relevant squares for all squares, in the default and the +bmi2 build.",
    design_ref="DESIGN.md §6 C15",
    note=TRUST + "quick tier: the table CONTENT for 126 of the 128 (piece,square) pairs is decided by exhaustive native enumeration, not deduction (thorough tier proves all 128 deductively); the BMI2 configuration is decided by enumeration only (no verifier model of pext/pdep).",
    technique="Kani/CBMC per-square full-domain proofs on the real magic table + index/mask contracts + spec frame lemma; exhaustive native subset enumeration (both build configurations) reported as non-deductive",
)

CLAIMS["C19"] = dict(
    category="proof",
    text="CacheTable::new/get/add/replace_if are extracted from the real source on every run and verified by Verus against an abstract view (sequence of (hash,value) slots) for tables of ANY size and any closure: whole-view postconditions (exactly one slot changes, nothing else), unchecked indexing turned into proved-in-bounds indexing; a trace lemma lifts the per-call contracts to arbitrary operation sequences. The panic half of new (never returns normally for any size that is not a power of two) is a second Verus obligation on the same extracted body. Kani cross-checks the unextracted code on small tables (bounded, reported separately).",
    design_ref="DESIGN.md §6 C19",
    note=TRUST + "assumed (listed in evidence): spec of usize::count_ones, `vec![e; n].into_boxed_slice()` yields n copies, panic! diverges, size_of usize == 8.",
    technique="Verus loop-free contracts over an abstract Seq view on mechanically extracted real functions + bounded Kani cross-check of the unextracted code",
)

CLAIMS["C02"] = dict(
    category="proof",
    text="Both move-application entry points are under contract against the rule-prescribed successor s_apply for every placement satisfying the occupancy invariant and every move obeying the movement rules (a superset of the legal moves): placement, side, rights, en-passant band (upper and lower bound, the latter with the flood-fill legality spec), hash per key coordinate, monotone material — all with a SYMBOLIC opponent king. The check/pin clause holds for EVERY opponent-king square by decomposition: Kani O2.1c/O2.2c (symbolic king, recording EMPTY-ray stand-ins) prove that the statements before the slider scan anchor the scan on the opponent king, leave pinned empty and set checkers to exactly the direct knight/pawn checks; Verus O2.1t/O2.2t prove on the extracted text (loop invariant, any number of sliders) that the scan XORs in exactly the pointwise slider contributions, flips the side and changes nothing else; lemma S1.6 equates the pointwise rule with the eight ray walks. Independently, Kani proves the whole clause end-to-end on the unextracted code per fixed opponent-king square (4 squares x 2 entry points per quick run; all 128 x 2 in the thorough tier). make_move is checked for any prior content of the output board; both entry points are tied to the same spec and additionally compared on the en-passant field.",
    design_ref="DESIGN.md §6 C02",
    note=TRUST + "quick tier: placement/hash/ep obligations replace get_rook_rays/get_bishop_rays by EMPTY (frame assumption: the slider scan writes only checkers/pinned; the thorough tier discharges it with a havoc abstraction of the rays); table accessors replaced by closed forms that C16 obligations prove equal to them (run as part of this check); the Verus tail proofs outline the statements before the scan (their text is kept but not verified in that unit; their effect is the contract of O2.1a/h/e/c); the end-to-end per-king Kani form of the check/pin clause covers a subset of king squares in the quick tier.",
    technique="Kani/CBMC contracts on Board::make_move_new / make_move against an independent successor spec (symbolic king); hash checked coordinate-wise through a probe stand-in for the key table; Verus loop-invariant proof of the slider scan on the mechanically extracted text for every king square, plus a per-king-square Kani case split end-to-end",
)
CLAIMS["C03"] = dict(
    category="proof",
    text="update_pin_info is proved for EVERY king square at once: Verus proves on the extracted text (loop invariant, any number of candidate sliders) that it computes the pointwise rule 'slider is a checker iff nothing stands between, the single man between is pinned' plus knight and pawn checkers and changes nothing else, and the code-independent Kani lemma S1.6 proves that this pointwise rule equals the independent eight-ray-walk specification of checkers and (raw) pinned for every placement and king square; Kani additionally proves update_pin_info == eight-walk spec on the unextracted code with the real closed-form tables per fixed king square (4 per quick run, all 128 in thorough); the incremental computation at the tail of make_move/make_move_new is proved equal to the same spec on the result position — for every king square by Kani O2.1c (pre-scan part, symbolic king) + Verus O2.1t/O2.2t (scan loop) + S1.6, and end-to-end per fixed king square by Kani O2.1b/O2.2b (all included here); xor keeps pieces/colour/combined in lock-step and toggles exactly one key; piece_on/color_on/king_square and every accessor agree with the bitboards; derived == compares exactly the position-determined fields, so a position reached incrementally equals the one built from scratch.",
    design_ref="DESIGN.md §6 C03",
    note=TRUST + "table accessors replaced by closed forms proved equal to them (C16 obligations, run as part of this check); quick tier covers a subset of king squares for the loop obligations; the FEN text layer of the statement is C06.",
    technique="Verus loop-invariant proofs of Board::update_pin_info and of the make_move/make_move_new slider scans on the mechanically extracted text (every king square), tied by a code-independent Kani lemma to an eight-ray-walk spec; Kani/CBMC contracts on xor, piece_on, color_on, accessors, and per-king-square end-to-end proofs with loop unwinding assertions",
)

CLAIMS["C14"] = dict(
    category="proof",
    text="All six iterator methods — next, len, size_hint, set_iterator_mask, remove_mask, remove_move — are extracted from the real source on every run (together with the BitBoard operators, to_square, popcnt, Square::new, ChessMove::new they call) and verified by Verus for move lists of ANY length against an abstract pending-count / slot view under the iterator invariant: next yields the first pending move, lowers the pending count by exactly one and re-establishes the invariant (None iff nothing pending); len/size_hint equal the pending count at every moment; set_iterator_mask yields a permutation of the slots (explicit bijection) satisfying the invariant; removals clear exactly the named destinations in every slot. Kani repeats the one-step contracts on the real NoDrop<ArrayVec> with at most 3 slots (bounded cross-check of the Vec model, reported separately). Two genuine defects found by these obligations were repaired (fix: commits).",
    design_ref="DESIGN.md §0, §6 C14",
    note=TRUST + "Verus side: MoveList modelled as Vec with capacity constant (rule V6), count_ones spec assumed (same fact proved by Kani for popcnt), Square invariant (<64) as precondition of remove_move; 'masks partition the move set / every move exactly once' follows from the per-step contracts by induction over the call sequence (count decreases by one per yielded move, yielded move is the first pending one, set_iterator_mask permutes) — the induction itself is stated, not mechanised.",
    technique="Verus loop-invariant and step-lemma proofs on mechanically extracted MoveGen methods (unbounded list length) + Kani one-step contracts on the real ArrayVec (bounded to 3 slots) as cross-check",
)

CLAIMS["C13"] = dict(
    category="proof",
    text="Render half, complete: Display::fmt of every one of the 20480 move values and 64 squares writes exactly source, destination and lower-case promotion letter (Kani, full domain, bytes captured in a fixed sink). Parse half, bounded and labelled so: FromStr for Square/ChessMove agree with a specification parser on every ASCII string up to 6 bytes (success condition, result, rendering-is-prefix), which together with the render contract gives parse(render(x)) == x for all values; totality (no panic) on every valid UTF-8 string up to 4 bytes (5 in thorough).",
    design_ref="DESIGN.md §6 C13",
    note=TRUST + "the parse contracts are bounded in text length (<= 6 ASCII bytes, <= 4/5 bytes arbitrary UTF-8): longer inputs are not decided (the parsers read only bytes 0..4, len()==5 and the last char — argued, not proved); rendering goes through write! into a fixed-size fmt::Write sink instead of String.",
    technique="Kani/CBMC full-domain render contracts on Display::fmt + bounded symbolic-text parse contracts on FromStr against a spec parser",
)
CLAIMS["C18"] = dict(
    category="proof",
    text="null_move is proved (Kani, symbolic king, every placement, with and without en-passant state) to be refused exactly when the mover's king is attacked (independent flood-fill attack spec, tied to the checkers field by a code-independent lemma) and otherwise to return the same placement, rights and hash field, the other side to move, no en-passant state and check/pin information equal to the from-scratch spec of the result; the callee update_pin_info is used through its contract, which is proved per king square under C03 (8 per quick run, all 128 in thorough; re-run here in the thorough tier).",
    design_ref="DESIGN.md §6 C18",
    note=TRUST + "modular: update_pin_info replaced by its contract O3.1 (stand-in upi_spec), O3.1 proved for a subset of king squares in the quick tier; table accessors replaced by closed forms proved equal to them (C16 obligations, run as part of this check).",
    technique="Kani/CBMC contract on Board::null_move with the callee replaced by its separately proved contract",
)
CLAIMS["C08"] = dict(
    category="proof",
    text="get_hash is proved to read only the incremental hash field, the en-passant file, both castle rights and the side to move; the incremental field is proved to stay the XOR of the keys of the placement under every operation that changes the board: Board::xor (exactly one key toggled), make_move_new / make_move (coordinate-wise hash contract for every key, every placement, every rule-obeying move), null_move (field unchanged); Hash for Board feeds exactly that field, so it is consistent with ==. Hence equal positions hash equally however they were reached.",
    design_ref="DESIGN.md §6 C08",
    note=TRUST + "the lift from per-operation contracts to 'all pairs of histories' is the standard induction over the history (each step preserves hash == XOR of keys of the placement), stated here and not mechanised; TryFrom<&BoardBuilder> builds the field by xor calls from 0: its coordinate-wise hash clause (the probed key is in the field exactly when that man is on the built board) is part of O7.1e (bounded quick variant, symbolic ranks 1,4,5,8, run here; all 64 squares in O7.1, thorough).",
    technique="Kani/CBMC relational frame contract on get_hash, coordinate-wise hash contracts on make_move*/xor via a probe stand-in for the key table, recording-Hasher contract for Hash",
)
CLAIMS["C09"] = dict(
    category="proof",
    text="First clause only. On the real generated key tables: all 768 piece-square keys non-zero and pairwise distinct, castle keys of a colour pairwise distinct, en-passant keys non-zero and pairwise distinct, side key non-zero (Kani, two symbolic indices); and for every raw board each single-component variant (one square's content, side to move, one side's rights, en-passant file) changes get_hash.",
    design_ref="DESIGN.md §6 C09",
    note=TRUST + "the statistical clause (collision frequency among millions of explored positions) is not a contract-level statement and is NOT addressed; the side-to-move variant is stated for positions without en-passant state.",
    technique="Kani/CBMC full-domain distinctness proof over the real Zobrist tables + single-component sensitivity contract on get_hash",
)

CLAIMS["C07"] = dict(
    category="proof",
    text="Builder half: Board::try_from on a symbolic builder (quick tier, two bounded variants: any of 13 contents on each of the 32 squares of ranks 1,2,7,8 — crowded boards included — and on the 32 squares of ranks 1,4,5,8 so that the en-passant filter clause is exercised non-vacuously; thorough tier: all 64 squares, complete) with any side/rights/en-passant file never panics or reads out of bounds, succeeds exactly when the gatekeeper specification holds and then reproduces the builder's placement, side, rights, en-passant state, check/pin information and hash; is_sane is proved equal to that specification for every board the API can construct; every valid chess position satisfies it (code-independent lemma); every accepted board leaves room in the fixed-capacity move list (men + 2 <= real capacity) — the obligation that exposed the >16-men defect, repaired by a fix: commit. Text half, bounded: coordinate/square parsers total on short UTF-8 text (C13 obligations).",
    design_ref="DESIGN.md §6 C07",
    note=TRUST + "modular: update_pin_info / is_sane used through their contracts inside try_from (O3.1 per king square — subset in the quick tier — and O5.1); FEN text parsing (BoardBuilder::from_str: split, contains, String) is NOT under contract — std String/Vec machinery is out of reach of CBMC within the budget and str is out of reach of Verus; safety of move generation on accepted boards rests on the capacity obligation O7.4 plus the move-list slot bound argued in DESIGN.md (one slot per man + two en-passant slots), not yet mechanised.",
    technique="Kani/CBMC contract on TryFrom<&BoardBuilder> over a fully symbolic builder with callees replaced by their proved contracts; exact functional contract on is_sane; capacity obligation against the real ArrayVec type",
)
CLAIMS["C05"] = dict(
    category="proof",
    text="Step obligations, all inputs: both move-application entry points produce the rule-prescribed successor (O2.1a/O2.2a) with structural monotonicity clauses (opponent's men and pawns only disappear, the mover's men are permuted, rights only shrink); code-independent lemma: the successor of a valid position under a legal move is valid again (kings, pawn ranks, rights backed, en-passant consistent, mover not in check); is_sane is proved equal to the gatekeeper specification, which every valid position satisfies; the check information the generator's legality filter relies on is exact after every move (pre-scan contract O2.1c/O2.2c with a symbolic king + Verus scan proofs O2.1t/O2.2t), and the producer loops are the Verus proofs of C01 (included here). The lift to all histories is the induction over the move sequence on these step contracts.",
    design_ref="DESIGN.md §6 C05",
    note=TRUST + "the induction over histories and the arithmetic step |A - x + y| = |A| are stated, not mechanised; 'generated moves are legal' is C01; placement obligations use the frame assumption of O2.1a in the quick tier (discharged in thorough).",
    technique="Kani/CBMC step contracts on make_move_new/make_move and is_sane + code-independent validity-preservation lemma over the chess specification",
)

CLAIMS["C01"] = dict(
    category="proof",
    text="Layered contracts on the real generator. Kani, all inputs: legal_king_move and legal_ep_move against a definitional flood-fill legality spec; pseudo_legals of all six piece types against the movement rules; the king producer (steps + castling per Art. 3.8.2) for every valid position. Verus, on text extracted from the source on every run, for ANY number of pieces: the piece loops of the generic producer (bishops, rooks, queens), of the knight override and of the pawn override incl. promotion flag and the en-passant entries (loop invariants: every source visited exactly once, ascending, entry iff non-empty destination set, set = rule & check mask / rule & king line, capacity never exceeded), and the dispatch enumerate_moves/new_legal on the number of checkers. Kani ties the per-piece destination formula to the rules spec on the unextracted code with the real ArrayVec (at most 3 men of the type, pawns 2 — bounded, listed separately). Code-independent lemmas S2: the pin/check-mask shortcut equals definitional legality for every piece type. Board::legal is membership in the generator (bounded, 3 slots); iterator expansion is C14.",
    design_ref="DESIGN.md §0, §6 C01",
    note=TRUST + "the link 'per-piece formula == rules spec' is checked by Kani with a bound on the number of men of the type (the Verus loop proof shows each entry depends only on its source square and loop-invariant values); Verus units import callee contracts (pseudo_legals, between, line, BitBoard::next, accessors) that are Kani obligations elsewhere; MoveList modelled as Vec with capacity constant (V6/V8); table accessors replaced by closed forms proved in C15/C16; S2 lemma proofs cached by content hash in the quick tier; legality is stated for valid positions (incl. the en-passant history clause).",
    technique="Verus loop-invariant proofs on mechanically extracted producers and dispatch (unbounded in piece count) + Kani/CBMC contracts on legality leaves, king producer and per-piece formulas against an independent rules-of-chess spec + code-independent SAT lemmas for the pin-aware shortcut",
)
CLAIMS["C04"] = dict(
    category="proof",
    text="Board::status is extracted from the real source and verified by Verus against the definition (no legal move and in check -> Checkmate; no legal move and not in check -> Stalemate; otherwise Ongoing) with MoveGen::new_legal(..).len() imported through the contracts proved in C01 (move set) and C14 (len exact on a fresh generator) and 'checkers empty iff not in check' from C03; a Kani obligation checks the same on the unextracted code with new_legal replaced by its contract (bounded to 3 slots). Because 'has no legal move' is only as good as the generator, this check also runs the legality leaves of C01 (legal_king_move, legal_ep_move, pseudo_legals against the rules spec, all placements), the Verus producer-loop and dispatch proofs of C01, and the make_move check-information obligations (O2.1c + Verus tail + per-king O2.1b).",
    design_ref="DESIGN.md §6 C04",
    note=TRUST + "composition: relies on the imported contracts of new_legal/len (C01, C14) and the checkers invariant (C03), listed as assumed in this unit and discharged by those properties' obligations.",
    technique="Verus contract on the extracted Board::status with callee contracts imported + Kani cross-check with the generator stubbed by its contract",
)

CLAIMS["C10"] = dict(
    category="proof",
    text="Every Game method (result, current_position, side_to_move, make_move, offer_draw, accept_draw, resign, declare_draw) is extracted from the real source on every run and verified by Verus for action logs of ANY length against an abstract semantics (start position + log): accepted iff open and legal, log grows by exactly the accepted action, identity once a result exists, result == rule-assigned result naming the right side, accept_draw iff pending offer rule; parity lemma (side to move == side of the current position) and finality lemma by induction over the log. Board is used through imported contracts over uninterpreted rule functions.",
    design_ref="DESIGN.md §6 C10",
    note=TRUST + "assumed (listed in evidence): contracts of Board::make_move_new/status/legal/side_to_move (discharged by C02/C04/C01/C03), 'a move flips the side' (C02), the iterator chain filter().count() of side_to_move (outlined, V5), can_declare_draw (C11), Vec length < usize::MAX.",
    technique="Verus contracts with loop invariant and inductive lemmas on mechanically extracted Game methods (unbounded log length), callee contracts imported",
)

CLAIMS["C11"] = dict(
    category="proof",
    text="Game::can_declare_draw is extracted from the real source on every run and verified by Verus for action logs of ANY length: loop invariants tie the running half-move counter to the rule (restarts only on pawn moves and captures) and the candidate list to the positions since the last irreversible event; the nested search is proved to return true exactly when the current position occurred twice before in that window; result: claimable iff no result and (100 reversible half-moves or threefold). declare_draw is in the C10 unit. A seeded native witness search supplies concrete histories (it found the castle-rights/fifty-move defect, now repaired by a fix: commit); one recorded known finding on position identity (en-passant flag for an illegal capture).",
    design_ref="DESIGN.md §6 C11",
    note=TRUST + "assumed (listed in evidence): position identity (get_hash, legal move list) == same placement/side/rights/en-passant possibility (outlined as opaque key; the known finding is exactly where this fails), equality/clone of that pair, contracts of Board::make_move_new/piece_on/castle_rights and Game::result, 'irreversible_separates' (occurrences within the window == occurrences in the whole game), log shorter than 2^31 actions (i32 counter).",
    technique="Verus loop-invariant proof (three loops, early returns) on the mechanically extracted Game::can_declare_draw with position identity outlined + native witness search for concrete histories",
)

CLAIMS["C17"] = dict(
    category="proof",
    text="Proof by composition. (1) Code-independent lemmas (Kani, all positions and moves): the rules specification commutes with the colour mirror (checkers, pinned, in-check, legality of every move, successor position) and, for positions without castling rights, with the left-right flip. (2) Every code==spec contract of C01-C04 is proved with the colour symbolic, so the library equals the specification for both colours; hence f(mirror x) = spec(mirror x) = mirror(spec x) = mirror(f x). (3) The colour-specific leaves are additionally proved mirror-symmetric directly on the real code and tables: Color rank helpers, uforward/ubackward, pawn attack/push tables, castle constants, reverse_colors, legal_king_move, legal_ep_move, pseudo_legals.",
    design_ref="DESIGN.md §6 C17",
    note=TRUST + "inherits every bound and assumption of C01-C04 (piece-loop producers bounded, king-square subsets in the quick tier); symmetry lemma proofs are cached by content hash in the quick tier and re-proved in thorough.",
    technique="code-independent SAT lemmas that the chess specification commutes with mirror/flip + colour-symbolic code==spec contracts (C01-C04) + direct symmetry contracts on colour-specific leaves",
)

CLAIMS["C06"] = dict(
    category="proof",
    text="Rendering half. Display::fmt of the builder is under contract (Kani, bytes captured in a fixed sink) for every side to move and en-passant file — the field is '-' or the passed-over square on rank 3/6 as the FEN standard specifies (the obligation that exposed the rank-4/5 defect, repaired by a fix: commit) — and for the castle-right combinations (KQkq subset or '-'; 6 of the 16 combinations per quick run, seed-rotated, all 16 in thorough), six well-formed fields. The en-passant STATE behind the field is covered by O2.1e/O2.1a (recorded only after a double push beside an enemy pawn, always when a legal capture exists) in C02. Structured half of the round trip: builder -> board reproduces placement, side, rights, en-passant (recorded exactly when a pawn of the side to move stands beside the pushed pawn — the same filter move application uses; quick-tier variant O7.1e with symbolic ranks 1,4,5,8, run here), check/pin and hash for a fully symbolic builder (O7.1, thorough), and from-scratch check/pin data equal the incrementally maintained data (O3.1 here, O2.1b in C03), which is what makes a position reached by play == the re-parsed one. Thorough tier adds the placement field with one symbolic man and Board -> builder.",
    design_ref="DESIGN.md §6 C06",
    note=TRUST + "NOT under contract: FEN text PARSING (BoardBuilder::from_str — str::split / contains / String are out of reach of CBMC within a check's time budget and of Verus) and the placement field for more than one man (Piece::to_string/format!/to_uppercase); so 'parse(render(x)) == x' is decided for the structured conversions only, and reading a standard writer's FEN rests on the parser using only the FILE of the en-passant field (by inspection).",
    technique="Kani/CBMC byte-exact render contracts on Display::fmt through a fixed sink (en-passant, side, castling fields) + structured round-trip contracts on the builder conversions + check/pin from-scratch obligations",
)

NOT_YET = {}


def main():
    props = [json.loads(l) for l in (VERIF / "properties.jsonl").read_text().splitlines() if l.strip()]
    na_reasons = json.loads((VERIF / "tools" / "not_applicable.json").read_text()) if (VERIF / "tools" / "not_applicable.json").exists() else {}
    checks = []
    na = []
    for p in props:
        pid = p["id"]
        if pid in CLAIMS:
            c = CLAIMS[pid]
            checks.append({
                "property_id": pid,
                "quick_cmd": "./check %s --tier quick" % pid,
                "thorough_cmd": "./check %s --tier thorough" % pid,
                "evidence_file": "/verif/evidence/%s.json" % pid,
                "replay_cmd_template": "./check %s --replay {path}" % pid,
                "engine": "contracts",
                "level_claimed": {"category": c["category"], "text": c["text"], "design_ref": c["design_ref"]},
                "level_note": c["note"],
                "technique": c["technique"],
            })
        else:
            na.append({"property_id": pid, "reason": na_reasons.get(pid, "check not built yet in this session (work in progress; see DESIGN.md §6 for the planned obligations)")})
    m = {
        "version": 1,
        "setup_cmd": "./tools/setup.sh",
        "hooks": {
            "guard": "cfg(kani)",
            "enable": "no hook is committed to /repo: every check copies /repo's working tree to a scratch directory and appends #[cfg(kani)] harness modules there (tools/vf.py make_copy); Verus units are extracted from /repo's text on every run (tools/verus_backend.py)",
            "baseline_off_cmd": "cd /repo && cargo test --workspace --no-fail-fast --offline",
            "source_commits": fix_commits(),
            "add_only": True,
        },
        "engines": [{"name": "contracts", "path": "/verif/check", "serves_properties": sorted(CLAIMS.keys()),
                     "kind_free_text": "contract-based deductive verification: Kani function-level obligations on an instrumented copy of the real crate, Verus on mechanically extracted functions, native exhaustive enumeration where stated"}],
        "checks": checks,
        "notes": "exit 0 = all obligations discharged; exit 1 = VIOLATION line; exit 2 = UNDECIDED (tool limit / lost anchor), never an alarm. Known findings: /verif/known_findings.txt.",
        "not_applicable": na,
    }
    (VERIF / "MANIFEST.json").write_text(json.dumps(m, indent=1) + "\n")
    print("MANIFEST.json: %d checks, %d not_applicable" % (len(checks), len(na)))


def fix_commits():
    import subprocess
    try:
        out = subprocess.run(["git", "-C", "/repo", "log", "--format=%H %s"], stdout=subprocess.PIPE, text=True).stdout
        return [l.split()[0] for l in out.splitlines() if len(l.split()) > 1 and l.split()[1].startswith("fix:")]
    except Exception:
        return []


if __name__ == "__main__":
    main()
