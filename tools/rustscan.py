"""rustscan.py — brace/quote/comment-aware scanning of Rust source text (no full parser).

Used to locate items by NAME (never by line number): `impl` blocks by header regex, `fn`s inside them,
structs/enums/consts/type aliases, loops inside a function body.
"""
import re


def code_mask(text):
    """list of booleans: True where the character is code (not inside comment / string / char literal)"""
    n = len(text)
    mask = [True] * n
    i = 0
    while i < n:
        c = text[i]
        if text.startswith("//", i):
            j = text.find("\n", i)
            j = n if j < 0 else j
            for k in range(i, j):
                mask[k] = False
            i = j
        elif text.startswith("/*", i):
            depth = 1
            j = i + 2
            while j < n and depth:
                if text.startswith("/*", j):
                    depth += 1
                    j += 2
                elif text.startswith("*/", j):
                    depth -= 1
                    j += 2
                else:
                    j += 1
            for k in range(i, j):
                mask[k] = False
            i = j
        elif c == '"':
            j = i + 1
            while j < n and text[j] != '"':
                j += 2 if text[j] == "\\" else 1
            for k in range(i, min(j + 1, n)):
                mask[k] = False
            i = j + 1
        elif c == "r" and re.match(r'r#*"', text[i:i + 8]) and (i == 0 or not (text[i - 1].isalnum() or text[i - 1] == "_")):
            m = re.match(r'r(#*)"', text[i:])
            close = '"' + m.group(1)
            j = text.find(close, i + len(m.group(0)))
            j = n if j < 0 else j + len(close)
            for k in range(i, j):
                mask[k] = False
            i = j
        elif c == "'":
            # char literal or lifetime
            m = re.match(r"'(\\.[^']*|[^'\\])'", text[i:])
            if m:
                for k in range(i, i + len(m.group(0))):
                    mask[k] = False
                i += len(m.group(0))
            else:
                i += 1
        else:
            i += 1
    return mask


def match_brace(text, mask, open_idx, open_ch="{", close_ch="}"):
    depth = 0
    i = open_idx
    n = len(text)
    while i < n:
        if mask[i]:
            if text[i] == open_ch:
                depth += 1
            elif text[i] == close_ch:
                depth -= 1
                if depth == 0:
                    return i
        i += 1
    return -1


def find_code(text, mask, pat, start=0, end=None):
    """iterate regex matches whose first character is code"""
    end = len(text) if end is None else end
    for m in re.finditer(pat, text[:end]):
        if m.start() >= start and mask[m.start()]:
            yield m


def find_impl(text, header_pat):
    """-> list of (header_text, body_open_idx, body_close_idx) for impl blocks whose header matches"""
    mask = code_mask(text)
    out = []
    for m in find_code(text, mask, r"(?m)^\s*(unsafe\s+)?impl\b"):
        ob = text.find("{", m.end())
        while ob >= 0 and not mask[ob]:
            ob = text.find("{", ob + 1)
        if ob < 0:
            continue
        header = " ".join(text[m.start():ob].split())
        if re.search(header_pat, header):
            cb = match_brace(text, mask, ob)
            out.append((header, ob, cb))
    return out


def find_fn_in(text, lo, hi, name):
    """find `fn name` at brace depth 1 relative to (lo,hi) block or depth 0 for whole file.
    -> (item_start, sig_start, body_open, body_close) ; item_start includes `pub` but not attributes/docs"""
    mask = code_mask(text)
    for m in find_code(text, mask, r"\bfn\s+" + re.escape(name) + r"\b", lo, hi):
        # depth check
        depth = 0
        for k in range(lo, m.start()):
            if mask[k]:
                if text[k] == "{":
                    depth += 1
                elif text[k] == "}":
                    depth -= 1
        if depth != (1 if lo > 0 or text[lo:lo + 1] == "{" else 0):
            continue
        # item start: back over `pub`, `pub(crate)`, `unsafe`, `const`
        s = m.start()
        pre = text[:s]
        pm = re.search(r"((pub(\([^)]*\))?\s+)?(const\s+)?(unsafe\s+)?)$", pre)
        item_start = s - len(pm.group(1)) if pm else s
        # body open: first code `{` at parenthesis depth 0 after the name (or `;` for a declaration)
        i = m.end()
        pd = 0
        while i < len(text):
            if mask[i]:
                ch = text[i]
                if ch in "([":
                    pd += 1
                elif ch in ")]":
                    pd -= 1
                elif ch == "{" and pd == 0:
                    break
                elif ch == ";" and pd == 0:
                    return (item_start, s, -1, i)
            i += 1
        bo = i
        bc = match_brace(text, mask, bo)
        return (item_start, s, bo, bc)
    return None


def find_item(text, kind, name):
    """struct / enum / const / type / static / trait at top level.  -> (start incl. attributes, end) or None"""
    mask = code_mask(text)
    for m in find_code(text, mask, r"(?m)^(pub(\([^)]*\))?\s+)?" + kind + r"\s+" + re.escape(name) + r"\b"):
        start = m.start()
        # include directly preceding attribute lines
        lines_before = text[:start].split("\n")
        k = len(lines_before) - 2
        pos = start
        while k >= 0 and lines_before[k].strip().startswith("#["):
            pos -= len(lines_before[k]) + 1
            k -= 1
        i = m.end()
        while i < len(text):
            if mask[i] and text[i] in "{;":
                break
            if mask[i] and text[i] == "(":
                i = match_brace(text, mask, i, "(", ")")
            elif mask[i] and text[i] == "[":
                i = match_brace(text, mask, i, "[", "]")
            i += 1
        if text[i] == ";":
            return (pos, i + 1)
        end = match_brace(text, mask, i)
        # tuple structs: `struct X(u8);`
        return (pos, end + 1)
    return None


def loops_in(text, lo, hi):
    """loops (for/while/loop) inside [lo,hi) in source order -> list of (kw_idx, body_open, body_close)"""
    mask = code_mask(text)
    out = []
    for m in find_code(text, mask, r"\b(for|while|loop)\b", lo, hi):
        if m.group(1) == "for":
            # skip `for<'a>` and `impl X for Y`
            rest = text[m.end():m.end() + 200]
            if not re.match(r"\s+[\w(&_ ,]+?\s+in\b", rest) and not re.match(r"\s*\(?\s*[\w, &_()]+\)?\s+in\b", rest):
                continue
        i = m.end()
        while i < hi and not (mask[i] and text[i] == "{"):
            i += 1
        out.append((m.start(), i, match_brace(text, mask, i)))
    return out


def balanced_arg(text, open_idx):
    """text[open_idx] == '(' -> index of matching ')' (quote-unaware is fine for the snippets we rewrite)"""
    depth = 0
    for i in range(open_idx, len(text)):
        if text[i] == "(":
            depth += 1
        elif text[i] == ")":
            depth -= 1
            if depth == 0:
                return i
    return -1
