#!/bin/bash
# usage: seed_test.sh <seed-name> <property> <deliver-dir>
# 1. confirms the seeded change in a scratch worktree (tests pass with it, demo fails with it and passes without it)
# 2. applies it to /repo, runs ./check <property>, reverts /repo
set -u
name=$1; prop=$2; src=$3
dst=/verif/seeded/$name
mkdir -p $dst
[ "$src" != "$dst" ] && cp $src/patch.diff $src/demo.rs $src/meta.json $dst/ 2>/dev/null
wt=/tmp/confirm/$name
rm -rf $wt; mkdir -p /tmp/confirm
git -C /repo worktree add -q --detach $wt HEAD || exit 3
cd $wt
git apply $dst/patch.diff || { echo "patch does not apply"; exit 3; }
t1=$(cargo test --offline 2>&1 | grep "test result" | tr '\n' ' ')
mkdir -p tests; cp $dst/demo.rs tests/demo.rs
d1=$(cargo test --offline --test demo 2>&1 | grep "test result" | tr '\n' ' ')
git checkout -q -- src
d0=$(cargo test --offline --test demo 2>&1 | grep "test result" | tr '\n' ' ')
cd /verif
git -C /repo worktree remove --force $wt
echo "confirm[$name]: suite_with_change=[$t1] demo_with_change=[$d1] demo_without=[$d0]" | tee $dst/confirm.txt
# run the check against the change
git -C /repo apply $dst/patch.diff || { echo "apply to /repo failed"; exit 3; }
./check $prop > $dst/check_output.txt 2>&1; rc=$?
git -C /repo checkout -- .
cp -f /verif/replays/$prop-*.json $dst/ 2>/dev/null
echo "check[$name]: rc=$rc $(grep -c VIOLATION $dst/check_output.txt) violation lines" | tee -a $dst/confirm.txt
grep "VIOLATION\|UNDECIDED\|\[check\]" $dst/check_output.txt | head -5
