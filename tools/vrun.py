#!/usr/bin/env python3
"""debug helper: build+run one verus unit, print verdicts and first errors.  usage: vrun.py C14_movegen_iter"""
import sys, re
sys.path.insert(0,'/verif/tools')
import verus_backend as vb, vf
from pathlib import Path
name=sys.argv[1]
f=vf.VERUS_DIR/(name+'.vrs')
meta=vb.parse_kv(f.read_text().split('\n',1)[0][7:])
work=Path('/var/tmp/chess-verif/vt'); logp=Path('/var/tmp/chess-verif/vt.log')
work.mkdir(parents=True,exist_ok=True)
if logp.exists(): logp.unlink()
try:
    recs,tr,info,cmd=vb.run_unit(f,meta,work,logp)
except vf.Undecided as e:
    print("UNDECIDED:",e); sys.exit(2)
for r in recs: print(r['obligation'],r['verdict'],r['why'][:200], round(r['seconds'],2))
print('verified',info['verified'],'errors',info['errors'],'wall',info['wall_s'])
log=logp.read_text()
errs=re.findall(r"(?ms)^error.*?(?=^error|^warning|^note: see|\Z)", log)
for e in errs[:int(sys.argv[2]) if len(sys.argv)>2 else 4]: print(e[:1500]); print('-----')
