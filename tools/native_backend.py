"""native back end: exhaustive enumerators / witness searches linked against a copy of /repo's working tree.
These are NOT deductive; they are reported under `exhaustive_native` / as witnesses, never under `discharged`."""
import json
import shutil
import time
from pathlib import Path

import vf

NATIVE = {
    "C10": [
        dict(name="c10_witness_search", cmd="c10", rustflags="", kind="exhaustive", tier="quick", fn="Game::make_move,Game::offer_draw,Game::accept_draw,Game::resign,Game::declare_draw,Game::result,Game::current_position,Game::side_to_move",
             desc="witness search (15 s, seeded): random interleavings of legal/illegal move attempts, offers, accepts, resignations and declarations from six start positions incl. already mated / stalemated ones, against an independent protocol model; NOT a proof — it supplies concrete action sequences for failing Verus obligations"),
    ],
    "C11": [
        dict(name="c11_known_ep_identity", cmd="c11_ep", rustflags="", kind="exhaustive", tier="quick", fn="Game::can_declare_draw,Board::set_ep,Board::get_hash",
             desc="replay of the recorded finding: after 1...d5 beside a PINNED white e-pawn the position repeats three times by the Laws, but its first occurrence is hashed with an en-passant flag and is not counted"),
        dict(name="c11_witness_search", cmd="c11", rustflags="", kind="exhaustive", tier="quick", fn="Game::can_declare_draw",
             desc="witness search (20 s, seeded random long games biased to reversible moves): can_declare_draw against a statement-level oracle (threefold by placement/side/rights/en-passant possibility over the whole game, or 100 reversible half-moves); NOT a proof — it supplies concrete histories for failing Verus obligations"),
    ],
    "C15": [
        dict(name="c15_exhaustive_default", cmd="c15", rustflags="", kind="exhaustive", tier="quick", fn="get_rook_moves,get_bishop_moves",
             desc="complete enumeration (not deduction): the real lookups on EVERY subset of the relevant squares of every square (rook+bishop), each with the irrelevant squares empty, all set, and two seeded random fillings, against the ray walk"),
        dict(name="c15_exhaustive_bmi2", cmd="c15", rustflags="-C target-feature=+bmi2", kind="exhaustive", tier="quick", fn="get_rook_moves_bmi,get_bishop_moves_bmi,get_rook_moves,get_bishop_moves",
             desc="same complete enumeration in a -C target-feature=+bmi2 build: pext/pdep lookups AND magic lookups against the ray walk (hence against each other); Kani has no model of pext/pdep, so this configuration is decided by enumeration only", needs_cpu="bmi2"),
    ],
}


def obligations(prop, tier):
    return [o for o in NATIVE.get(prop, []) if tier == "thorough" or o["tier"] == "quick"]


def ensure_plain_copy(work: Path):
    if not (work / "Cargo.toml").exists():
        if work.exists():
            shutil.rmtree(work)
        work.mkdir(parents=True)
        shutil.copytree(vf.REPO / "src", work / "src")
        for n in ("Cargo.toml", "Cargo.lock"):
            shutil.copy(vf.REPO / n, work / n)


def build(work: Path, rustflags: str, logp: Path):
    ensure_plain_copy(work)
    nd = work / "vnative"
    if not nd.exists():
        shutil.copytree(vf.NATIVE_DIR, nd, ignore=shutil.ignore_patterns("target"))
        (nd / "Cargo.toml").write_text((nd / "Cargo.toml").read_text().replace("CHESS_PATH", str(work)))
        main = (nd / "src" / "main.rs").read_text().replace('#[path = "../../spec/rules.rs"]', '#[path = "%s"]' % (vf.VERIF / "spec" / "rules.rs"))
        (nd / "src" / "main.rs").write_text(main)
        shutil.copy(vf.REPO / "Cargo.lock", nd / "Cargo.lock")
    tag = "bmi2" if "bmi2" in rustflags else "default"
    env = {"CARGO_TARGET_DIR": str(nd / ("target-" + tag))}
    if rustflags:
        env["RUSTFLAGS"] = rustflags
    rc, out, wall = vf.sh(["cargo", "build", "--release", "--offline"], cwd=nd, timeout=1800, env=env)
    with open(logp, "a") as fh:
        fh.write("$ [native build %s]\n%s\n" % (tag, out[-6000:]))
    if rc != 0:
        raise vf.Undecided("native build failed (%s): %s" % (tag, out[-800:].replace("\n", " | ")))
    return nd / ("target-" + tag) / "release" / "vnative"


def run(prop, tier, obs, work, logp, seed):
    recs = []
    trusted = {"native enumerators run the real crate through its public API; they are complete enumerations / witness searches, not proofs"}
    cpuflags = Path("/proc/cpuinfo").read_text() if Path("/proc/cpuinfo").exists() else ""
    for o in obs:
        t0 = time.time()
        if o.get("needs_cpu") and o["needs_cpu"] not in cpuflags:
            recs.append(dict(obligation=o["name"], id=o["name"], backend="native", kind=o["kind"], function=o["fn"], desc=o["desc"], bound="",
                             verdict="undecided", why="CPU lacks %s; configuration cannot be executed here" % o["needs_cpu"], seconds=0, cases=0))
            continue
        exe = build(work, o["rustflags"], logp)
        rc, out, wall = vf.sh([str(exe), o["cmd"], str(seed)], cwd=work, timeout=3600)
        last = [l for l in out.strip().splitlines() if l.startswith("{")]
        try:
            res = json.loads(last[-1]) if last else {}
        except Exception:
            res = {}
        with open(logp, "a") as fh:
            fh.write("$ vnative %s %d -> rc=%d\n%s\n" % (o["cmd"], seed, rc, out[-3000:]))
        if res.get("ok") is True and rc == 0:
            verdict, why = "ok", ""
        elif res.get("ok") is False:
            verdict, why = "violation", "native enumeration found a disagreeing input: %s" % json.dumps(res.get("witness"))
        else:
            verdict, why = "undecided", "native run failed rc=%d: %s" % (rc, out[-400:].replace("\n", " | "))
        recs.append(dict(obligation=o["name"], id=o["name"], backend="native", kind=o["kind"], function=o["fn"], desc=o["desc"], bound="",
                         verdict=verdict, why=why, seconds=time.time() - t0, cases=res.get("cases", 0),
                         witness=dict(res.get("witness") or {}, native_cmd="vnative %s %d" % (o["cmd"], seed), rustflags=o["rustflags"]) if res.get("ok") is False else None,
                         output=out[-2000:]))
    return recs, trusted, "cargo build --release --offline (vnative against a copy of /repo) && vnative <cmd> <seed>"


def replay(ce, work, logp):
    cmd = ce.get("native_cmd", "").split()
    exe = build(work, ce.get("rustflags", ""), logp)
    rc, out, _ = vf.sh([str(exe)] + cmd[1:], cwd=work, timeout=3600)
    print(out[-3000:])
    return 1 if rc == 1 else (0 if rc == 0 else 2)
