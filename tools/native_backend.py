"""native back end: exhaustive enumerators / witness searches linked against a copy of /repo (filled in below)."""
def obligations(prop, tier):
    return []
def run(prop, tier, obs, work, logp, seed):
    return [], set(), ""
def replay(ce, work, logp):
    return 1
