"""Verus back end: mechanical extraction of real functions from /repo's CURRENT text into one file per unit,
contract splice keyed by item name / loop ordinal / exact snippet (never line numbers), run `verus`.

Unit files: /verif/verus/<Cxx>_<name>.vrs.  Everything not starting with `//@` is copied verbatim (spec functions,
lemmas, imported contracts).  Directives:

  //@unit props=C19,C07 name=cache_table tier=quick
  //@struct file=src/x.rs name=Foo derive="Copy, Clone"        extract a struct/enum; derives replaced by the list (V1 pub, V2)
  //@const  file=src/x.rs name=FOO                              extract a const/static/type item verbatim (made pub)
  //@impl   file=src/x.rs header="regex on impl header" emit="impl<T: Copy> Foo<T>"   open an impl block (emit = header to print; default = source header)
  //@fn name=get ob=O19.2 kind=proof ret=r desc="..."          extract fn `get` from the current impl (or top level with file=)
  //@| <contract line>                                          goes between signature and body
  //@loop 0| <clause>                                           goes at the head of the k-th loop of the fn (source order)
  //@loopstart 0| <stmt>    //@loopend 0| <stmt>                first / last statement of that loop's body
  //@entry| <stmt>                                              first statement of the fn body
  //@before `snippet`| <stmt>    //@after `snippet`| <stmt>     snippet must occur exactly once in the fn body, else UNDECIDED
  //@replace `old` => `new`                                     V5 outlining / V6 type rewrites; `old` must occur exactly once
  //@endfn
  //@endimpl
  //@ob name=lemma_x kind=lemma desc="..."                      a verbatim proof fn that counts as an obligation
  //@canary name=must_fail_x                                    a verbatim proof fn that MUST be rejected (vacuity guard)
"""
import json
import os
import re
import time
from pathlib import Path

import rustscan as rs
import vf

DIR = vf.VERUS_DIR


def snip_re(snippet):
    """snippets in unit files match the source text modulo whitespace runs"""
    return re.compile(r"\s+".join(re.escape(t) for t in snippet.split()))


def snip_count(body, snippet):
    return len(snip_re(snippet).findall(body))


def parse_kv(s):
    return vf.parse_tags(s)


def units_for(prop, tier):
    out = []
    for f in sorted(DIR.glob("*.vrs")):
        head = f.read_text().split("\n", 1)[0]
        if head.startswith("//@unit"):
            d = parse_kv(head[7:])
            if prop in d.get("props", "").split(",") and (tier == "thorough" or d.get("tier", "quick") == "quick"):
                out.append((f, d))
    return out


def obligations(prop, tier):
    return [{"name": f.stem, "file": f, "meta": d} for f, d in units_for(prop, tier)]


class Extractor:
    def __init__(self, unit_path):
        self.path = unit_path
        self.log = []  # rewrite log (evidence)
        self.obs = []  # obligations: dict(name, fn, kind, desc, vname)
        self.assumptions = []
        self.src_cache = {}

    def src(self, rel):
        if rel not in self.src_cache:
            p = vf.REPO / rel
            if not p.exists():
                raise vf.Undecided("lost anchor: %s does not exist" % rel)
            self.src_cache[rel] = p.read_text()
        return self.src_cache[rel]

    # -------------------------------------------------------------- rewrite rules on a function body
    def v3_unchecked(self, body, fname):
        """V3: unsafe { *X.get_unchecked(E) } -> X[E] ;  unsafe { X.get_unchecked_mut(E) } -> &mut X[E]"""
        out = body
        for _ in range(50):
            m = re.search(r"unsafe\s*\{\s*(\*?)\s*([\w\.\s]+?)\s*\.\s*get_unchecked(_mut)?\s*\(", out)
            if not m:
                break
            op = m.end() - 1
            cp = rs.balanced_arg(out, op)
            rest = out[cp + 1:]
            m2 = re.match(r"\s*;?\s*\}", rest)
            if cp < 0 or not m2:
                raise vf.Undecided("V3: cannot parse unchecked access in %s" % fname)
            recv = "".join(m.group(2).split())
            idx = out[op + 1:cp].strip()
            if m.group(3):  # _mut
                new = ("&mut " if not m.group(1) else "") + "%s[%s]" % (recv, idx)
            else:
                new = ("" if m.group(1) else "&") + "%s[%s]" % (recv, idx)
            old = out[m.start():cp + 1 + m2.end()]
            out = out[:m.start()] + new + out[cp + 1 + m2.end():]
            self.log.append({"rule": "V3", "fn": fname, "before": " ".join(old.split()), "after": new})
        return out

    def v8_push_unchecked(self, body, fname):
        """V8: unsafe { L.push_unchecked(E); } -> assert(L.len() < MOVELIST_CAP); L.push(E);"""
        out = body
        for _ in range(50):
            m = re.search(r"unsafe\s*\{\s*(\w+)\s*\.\s*push_unchecked\s*\(", out)
            if not m:
                break
            op = m.end() - 1
            cp = rs.balanced_arg(out, op)
            m2 = re.match(r"\s*;\s*\}", out[cp + 1:])
            if cp < 0 or not m2:
                raise vf.Undecided("V8: cannot parse push_unchecked in %s" % fname)
            arg = out[op + 1:cp]
            new = "assert(%s@.len() < MOVELIST_CAP); %s.push(%s);" % (m.group(1), m.group(1), arg.strip())
            old = out[m.start():cp + 1 + m2.end()]
            out = out[:m.start()] + new + out[cp + 1 + m2.end():]
            self.log.append({"rule": "V8", "fn": fname, "before": " ".join(old.split())[:200], "after": " ".join(new.split())[:200]})
        return out

    def v4_for_bitboard(self, body, fname, which):
        """V4: `for P in E {B}` over a BitBoard (listed loop ordinals only) ->
        `let mut it_k = E; loop { match it_k.next() { None => { break; } Some(P) => {B} } }`"""
        out = body
        # process from the last listed loop to the first so earlier offsets stay valid
        for k in sorted(which, reverse=True):
            loops = rs.loops_in(out, 0, len(out))
            if k >= len(loops):
                raise vf.Undecided("V4: loop#%d not found in %s" % (k, fname))
            kw, bo, bc = loops[k]
            head = out[kw:bo]
            m = re.match(r"for\s+(.+?)\s+in\s+(.+?)\s*$", head, re.S)
            if not m:
                raise vf.Undecided("V4: loop#%d of %s is not a for loop" % (k, fname))
            pat, expr = m.group(1), m.group(2)
            inner = out[bo + 1:bc]
            new = "let mut it_%d = %s; loop /*V4#%d*/ { match it_%d.next() { None => { /*V4none#%d*/ break; } Some(%s) => { /*V4some#%d*/ %s /*V4end#%d*/ } } }" % (k, expr, k, k, k, pat, k, inner, k)
            self.log.append({"rule": "V4", "fn": fname, "loop": k, "before": " ".join(head.split()), "after": "let mut it_%d = %s; loop { match it_%d.next() { None => break, Some(%s) => {..body unchanged..} } }" % (k, expr, k, pat)})
            out = out[:kw] + new + out[bc + 1:]
        return out

    # -------------------------------------------------------------- directive handlers
    def do_struct(self, d):
        text = self.src(d["file"])
        kind = d.get("kind", "struct")
        r = rs.find_item(text, kind, d["name"])
        if not r:
            raise vf.Undecided("lost anchor: %s %s in %s" % (kind, d["name"], d["file"]))
        item = text[r[0]:r[1]]
        before = item
        # derives
        item = re.sub(r"#\[derive\([^\)]*\)\]\s*", "", item)
        item = re.sub(r"#\[repr\([^\)]*\)\]\s*", "", item)
        item = re.sub(r"(?m)^\s*///.*\n", "", item)
        if d.get("derive"):
            item = "#[derive(%s)]\n" % d["derive"] + item
        # V1: pub everywhere
        item = re.sub(r"^(pub(\([^)]*\))?\s+)?(struct|enum)", r"pub \3", item.lstrip(), count=1, flags=re.M) if not item.lstrip().startswith("#") else re.sub(
            r"\n(pub(\([^)]*\))?\s+)?(struct|enum)", r"\npub \3", item, count=1)
        if kind == "struct":
            item = re.sub(r"(?m)^(\s+)(pub(\([^)]*\))?\s+)?(\w+)\s*:", r"\1pub \4:", item)
            mt = re.search(r"struct\s+\w+\s*\(([^)]*)\)\s*;", item)
            if mt:
                fields = ", ".join("pub " + re.sub(r"^pub(\([^)]*\))?\s+", "", f.strip()) for f in mt.group(1).split(",") if f.strip())
                item = item[:mt.start(1)] + fields + item[mt.end(1):]
        if d.get("subst"):
            for pair in d["subst"].split(";;"):
                a, b = pair.split("=>")
                if a.strip() not in item:
                    raise vf.Undecided("lost anchor: subst `%s` not found in %s" % (a.strip(), d["name"]))
                item = item.replace(a.strip(), b.strip())
                self.log.append({"rule": "V6", "item": d["name"], "before": a.strip(), "after": b.strip()})
        if d.get("bounds_drop"):
            for b in d["bounds_drop"].split(","):
                item = item.replace(b.strip(), "")
        self.log.append({"rule": "V1/V2", "item": d["name"], "before_derive": " ".join(re.findall(r"#\[derive\([^\)]*\)\]", before)), "after_derive": d.get("derive", "(none)")})
        return item + "\n"

    def do_const(self, d):
        text = self.src(d["file"])
        r = rs.find_item(text, d.get("kind", "const"), d["name"])
        if not r:
            raise vf.Undecided("lost anchor: const %s in %s" % (d["name"], d["file"]))
        item = re.sub(r"(?m)^\s*///.*\n", "", text[r[0]:r[1]])
        item = re.sub(r"^(pub(\([^)]*\))?\s+)?", "pub ", item.lstrip(), count=1)
        return item + "\n"

    def do_fn(self, d, sub, impl_ctx):
        fname = d["name"]
        if d.get("trait"):
            text = self.src(d["file"])
            mask = rs.code_mask(text)
            mt = None
            for m_ in rs.find_code(text, mask, r"(?m)^\s*(pub(\([^)]*\))?\s+)?trait\s+" + re.escape(d["trait"]) + r"\b"):
                mt = m_
                break
            if not mt:
                raise vf.Undecided("lost anchor: trait %s in %s" % (d["trait"], d["file"]))
            lo = text.find("{", mt.end())
            hi = rs.match_brace(text, mask, lo)
        elif impl_ctx:
            text, lo, hi = impl_ctx
        else:
            text = self.src(d["file"])
            lo, hi = 0, len(text)
        r = rs.find_fn_in(text, lo, hi, fname)
        if not r or r[2] < 0:
            raise vf.Undecided("lost anchor: fn %s" % fname)
        item_start, sig_start, bo, bc = r
        sig = " ".join(text[sig_start:bo].split())
        body = text[bo + 1:bc]
        qual = d.get("qual", "pub")
        # return value name
        if d.get("ret"):
            m = re.search(r"->\s*(.+?)\s*(where\b.*)?$", sig)
            if not m:
                raise vf.Undecided("fn %s has no return type to name" % fname)
            sig = sig[:m.start()] + "-> (%s: %s) %s" % (d["ret"], m.group(1), m.group(2) or "")
        if d.get("rename"):
            sig = re.sub(r"\bfn\s+" + re.escape(fname) + r"\b", "fn " + d["rename"], sig, count=1)
        # strip comments inside body? keep them (harmless)
        # V-rules
        if d.get("v4"):
            body = self.v4_for_bitboard(body, fname, [int(x) for x in d["v4"].split(",")])
        body = self.v3_unchecked(body, fname)
        body = self.v8_push_unchecked(body, fname)
        contract, entry = [], []
        loop_head, loop_start, loop_end = {}, {}, {}
        befores, afters, replaces, tails, outlines, strips = [], [], [], [], [], []
        for kind, arg, txt in sub:
            if kind == "|":
                contract.append(txt)
            elif kind == "entry":
                entry.append(txt)
            elif kind == "loop":
                loop_head.setdefault(int(arg), []).append(txt)
            elif kind == "loopstart":
                loop_start.setdefault(int(arg), []).append(txt)
            elif kind == "loopend":
                loop_end.setdefault(int(arg), []).append(txt)
            elif kind == "tail":
                tails.append(txt)
            elif kind == "outline":
                outlines.append((arg, txt))
            elif kind == "strip":
                strips.append(arg)
            elif kind == "before":
                befores.append((arg, txt))
            elif kind == "after":
                afters.append((arg, txt))
            elif kind == "replace":
                replaces.append((arg, txt))
        for pat in strips:
            n_ = snip_count(body, pat)
            body = snip_re(pat).sub("", body)
            self.log.append({"rule": "strip", "fn": fname, "before": pat + " (%d occurrences)" % n_, "after": "", "note": "attribute on a statement; no run-time meaning"})
        for (a_snip, b_snip), new in outlines:
            if snip_count(body, a_snip) != 1 or snip_count(body, b_snip) != 1:
                raise vf.Undecided("lost anchor: outline range `%s` .. `%s` in %s (occurrences %d, %d; need 1, 1)" % (a_snip, b_snip, fname, snip_count(body, a_snip), snip_count(body, b_snip)))
            ia = snip_re(a_snip).search(body).start()
            ib = snip_re(b_snip).search(body).start()
            if ib <= ia:
                raise vf.Undecided("lost anchor: outline range out of order in %s" % fname)
            outlined_text = body[ia:ib]
            body = body[:ia] + new + "\n        " + body[ib:]
            self.log.append({"rule": "V5-block", "fn": fname, "before": "statement block from `%s` up to (not including) `%s` (%d lines)" % (a_snip, b_snip, outlined_text.count("\n")),
                             "after": new, "note": "the block is kept in the source but NOT verified here; its effect is the assumed contract of the ext_ function, discharged by the Kani obligation named in the unit",
                             "outlined_sha256": __import__("hashlib").sha256(outlined_text.encode()).hexdigest()[:16]})
        for old, new in replaces:
            if old.startswith("ALL:"):
                old = old[4:]
                if snip_count(body, old) < 1:
                    raise vf.Undecided("lost anchor: replace-all snippet `%s` does not occur in %s" % (old, fname))
                body = snip_re(old).sub(lambda m_: new, body)
                self.log.append({"rule": "V5/V6", "fn": fname, "before": old + " (all occurrences)", "after": new})
                continue
            if snip_count(body, old) != 1:
                raise vf.Undecided("lost anchor: replace snippet `%s` occurs %d times in %s (need exactly 1)" % (old, snip_count(body, old), fname))
            body = snip_re(old).sub(lambda m_: new, body, count=1)
            self.log.append({"rule": "V5/V6", "fn": fname, "before": old, "after": new})
        # loops: insert from last to first
        nloops = max([-1] + list(loop_head) + list(loop_start) + list(loop_end))
        if nloops >= 0:
            loops = rs.loops_in(body, 0, len(body))
            if len(loops) <= nloops:
                raise vf.Undecided("lost anchor: fn %s has %d loops, contract mentions loop#%d" % (fname, len(loops), nloops))
            for k in range(len(loops) - 1, -1, -1):
                kw, lbo, lbc = loops[k]
                if k in loop_end:
                    body = body[:lbc] + "\n" + "\n".join(loop_end[k]) + "\n" + body[lbc:]
                if k in loop_start:
                    body = body[:lbo + 1] + "\n" + "\n".join(loop_start[k]) + "\n" + body[lbo + 1:]
                if k in loop_head:
                    body = body[:lbo] + "\n" + "\n".join(loop_head[k]) + "\n" + body[lbo:]
        for snip, txt in befores:
            if snip_count(body, snip) != 1:
                raise vf.Undecided("lost anchor: snippet `%s` occurs %d times in %s (need exactly 1)" % (snip, snip_count(body, snip), fname))
            body = snip_re(snip).sub(lambda m_: txt + "\n" + m_.group(0), body, count=1)
        for snip, txt in afters:
            if snip_count(body, snip) != 1:
                raise vf.Undecided("lost anchor: snippet `%s` occurs %d times in %s (need exactly 1)" % (snip, snip_count(body, snip), fname))
            body = snip_re(snip).sub(lambda m_: m_.group(0) + "\n" + txt, body, count=1)
        if tails:
            blines = body.rstrip().split("\n")
            k = len(blines) - 1
            while k >= 0 and not blines[k].strip():
                k -= 1
            if blines[k].strip() in ("}", "};"):
                # the body ends with a block statement, not a tail expression: append after it
                blines[k + 1:k + 1] = tails
            else:
                blines[k:k] = tails
            body = "\n".join(blines) + "\n"
        out = "%s %s\n%s\n{\n%s\n%s}\n" % (qual, sig, "\n".join("    " + c for c in contract), "\n".join(entry), body)
        if d.get("ob"):
            self.obs.append({"name": d.get("rename", fname), "id": d["ob"], "kind": d.get("kind", "proof"), "fn": d.get("fnlabel", fname), "desc": d.get("desc", ""),
                             "bound": d.get("bound", "")})
        return out

    # -------------------------------------------------------------- driver
    def build(self):
        lines = self.path.read_text().split("\n")
        out = []
        impl_ctx = None
        i = 1
        n = len(lines)
        while i < n:
            ln = lines[i]
            st = ln.strip()
            if not st.startswith("//@"):
                out.append(ln)
                i += 1
                continue
            m = re.match(r"//@(\w+)\s*(.*)$", st)
            cmd, rest = m.group(1), m.group(2)
            if cmd == "struct":
                out.append(self.do_struct(parse_kv(rest)))
            elif cmd == "const":
                out.append(self.do_const(parse_kv(rest)))
            elif cmd == "impl":
                d = parse_kv(rest)
                text = self.src(d["file"])
                found = rs.find_impl(text, d["header"])
                if len(found) != 1:
                    raise vf.Undecided("lost anchor: impl header /%s/ matches %d blocks in %s" % (d["header"], len(found), d["file"]))
                header, lo, hi = found[0]
                impl_ctx = (text, lo, hi)
                emit = d.get("emit", header)
                if emit != header:
                    self.log.append({"rule": "V9", "before": header, "after": emit, "note": "trait-impl methods are emitted as inherent methods (Verus rejects requires on trait impls); bodies unchanged"})
                out.append(emit + " {")
            elif cmd == "implblock":
                d = parse_kv(rest)
                text = self.src(d["file"])
                found = rs.find_impl(text, d["header"])
                if len(found) != 1:
                    raise vf.Undecided("lost anchor: impl header /%s/ matches %d blocks in %s" % (d["header"], len(found), d["file"]))
                header, lo, hi = found[0]
                blk = header + " " + text[lo:hi + 1]
                blk = re.sub(r"(?m)^\s*#\[inline[^\]]*\]\s*\n", "", blk)
                blk = re.sub(r"(?m)^\s*///.*\n", "", blk)
                out.append(blk)
                self.log.append({"rule": "verbatim", "item": header, "note": "whole impl block copied (doc comments and #[inline] dropped); Verus verifies its body against the *SpecImpl in the unit"})
            elif cmd == "endimpl":
                impl_ctx = None
                out.append("}")
            elif cmd == "fn":
                d = parse_kv(rest)
                sub = []
                i += 1
                while i < n and not lines[i].strip().startswith("//@endfn"):
                    s2 = lines[i].strip()
                    m4 = re.match(r"//@outline\s+`([^`]*)`\s*\.\.\s*`([^`]*)`\s*=>\s*`([^`]*)`", s2)
                    if m4:
                        sub.append(("outline", (m4.group(1), m4.group(2)), m4.group(3)))
                        i += 1
                        continue
                    m5 = re.match(r"//@strip\s+`([^`]*)`", s2)
                    if m5:
                        sub.append(("strip", m5.group(1), ""))
                        i += 1
                        continue
                    m3 = re.match(r"//@tail\|\s?(.*)$", s2)
                    if m3:
                        sub.append(("tail", None, m3.group(1)))
                        i += 1
                        continue
                    m2 = re.match(r"//@(\||entry\||loop\s+(\d+)\||loopstart\s+(\d+)\||loopend\s+(\d+)\||before\s+`([^`]*)`\||after\s+`([^`]*)`\||replace\s+`([^`]*)`\s*=>\s*`([^`]*)`)\s?(.*)$", s2)
                    if m2:
                        tag = m2.group(1)
                        txt = m2.group(9)
                        if tag == "|":
                            sub.append(("|", None, txt))
                        elif tag.startswith("entry"):
                            sub.append(("entry", None, txt))
                        elif tag.startswith("loopstart"):
                            sub.append(("loopstart", m2.group(3), txt))
                        elif tag.startswith("loopend"):
                            sub.append(("loopend", m2.group(4), txt))
                        elif tag.startswith("loop"):
                            sub.append(("loop", m2.group(2), txt))
                        elif tag.startswith("before"):
                            sub.append(("before", m2.group(5), txt))
                        elif tag.startswith("after"):
                            sub.append(("after", m2.group(6), txt))
                        elif tag.startswith("replace"):
                            sub.append(("replace", m2.group(7), m2.group(8)))
                    elif s2 and not s2.startswith("//"):
                        raise vf.Undecided("unit file %s: unparsable line inside //@fn: %s" % (self.path.name, s2))
                    i += 1
                out.append(self.do_fn(d, sub, impl_ctx if not (d.get("file") or d.get("trait")) else None))
            elif cmd == "ob":
                d = parse_kv(rest)
                self.obs.append({"name": d["name"], "id": d.get("id", d["name"]), "kind": d.get("kind", "lemma"), "fn": d.get("fn", "spec"), "desc": d.get("desc", ""), "bound": ""})
            elif cmd == "canary":
                d = parse_kv(rest)
                self.obs.append({"name": d["name"], "id": d["name"], "kind": "canary", "fn": "", "desc": d.get("desc", "must be rejected"), "bound": ""})
            elif cmd == "assume":
                self.assumptions.append(rest)
            i += 1
        return "\n".join(out) + "\n"


def scan_assumptions(src):
    out = set()
    for m in re.finditer(r"#\[verifier::external_body\]\s*(pub\s+)?(proof\s+|exec\s+)?fn\s+(\w+)", src):
        out.add("verus external_body (assumed contract): fn %s" % m.group(3))
    for m in re.finditer(r"assume_specification\s*(<[^>]*>)?\s*\[\s*([^\]]+)\]", src):
        out.add("verus assume_specification: %s" % " ".join(m.group(2).split()))
    for m in re.finditer(r"\bassume\(", src):
        out.add("verus: file contains assume(...) (listed per unit in the unit file)")
    for m in re.finditer(r"\badmit\(\)", src):
        out.add("verus: file contains admit()")
    for m in re.finditer(r"#\[verifier::external_body\]\s*(pub\s+)?struct\s+(\w+)", src):
        out.add("verus external_body type (opaque): %s" % m.group(2))
    for m in re.finditer(r"pub\s+uninterp\s+spec\s+fn\s+(\w+)", src):
        out.add("verus uninterpreted spec fn: %s (constrained only by imported contracts)" % m.group(1))
    return out


def run_unit(upath, meta, work: Path, logp: Path):
    ex = Extractor(upath)
    src = ex.build()
    work.mkdir(parents=True, exist_ok=True)
    outp = work / ("verus_%s.rs" % upath.stem)
    outp.write_text(src)
    # keep a copy for inspection
    (vf.VERIF / "logs").mkdir(exist_ok=True)
    (vf.VERIF / "logs" / outp.name).write_text(src)
    rlimit = meta.get("rlimit", "30")
    cmd = ["verus", str(outp), "--output-json", "--time", "--triggers-mode", "silent", "--rlimit", rlimit, "--multiple-errors", os.environ.get("VERUS_MULTI", "1")]
    t0 = time.time()
    rc, out, wall = vf.sh(cmd, cwd=work, timeout=int(meta.get("timeout", "900")))
    with open(logp, "a") as fh:
        cut = out.find('{\n  "func-details"')
        fh.write("$ " + " ".join(cmd) + "\n" + (out[:cut] if cut > 0 else out[:40000]) + "\n" + out[-3000:] + "\n")
    # the JSON object is on stdout, diagnostics on stderr — both captured; locate the JSON
    jtxt = None
    k = out.find('{\n  "')
    if k < 0:
        k = out.find("{")
    data = {}
    for start in [m.start() for m in re.finditer(r"(?m)^\{", out)]:
        try:
            data = json.loads(out[start:out.rindex("}") + 1])
            jtxt = True
            break
        except Exception:
            continue
    diag = out
    vr = data.get("verification-results", {})
    fb = {}
    for mod in data.get("times-ms", {}).get("smt", {}).get("smt-run-module-times", []):
        for f in mod.get("function-breakdown", []):
            fb[f["function"]] = f
    crate = outp.stem
    recs = []
    compile_error = (not jtxt) or vr.get("encountered-vir-error") or (re.search(r"(?m)^error(\[E\d+\])?: ", diag) and not fb)
    # errors grouped by function span: map line numbers to functions of the generated file
    fn_lines = []
    for m in re.finditer(r"(?m)^\s*(pub\s+)?(proof\s+|spec\s+|exec\s+|open\s+spec\s+|closed\s+spec\s+)*fn\s+(\w+)", src):
        fn_lines.append((src[:m.start()].count("\n") + 1, m.group(3)))
    def fn_at(line):
        cur = None
        for l, nme in fn_lines:
            if l <= line:
                cur = nme
        return cur
    errs = {}
    for m in re.finditer(r"(?m)^error: ([^\n]+)\n\s*--> [^:\n]+:(\d+):\d+", diag):
        errs.setdefault(fn_at(int(m.group(2))), []).append(m.group(1))
    for ob in ex.obs:
        name = ob["name"]
        f = next((v for k2, v in fb.items() if k2 == "%s::%s" % (crate, name) or k2.endswith("::" + name)), None)
        msgs = errs.get(name, [])
        if compile_error:
            verdict, why = "undecided", "verus could not process the unit (unsupported construct / lost anchor / type error): " + "; ".join(re.findall(r"(?m)^error[^\n]*", diag)[:3])
        elif f is None and not msgs:
            verdict, why = ("undecided", "function %s not found in verus result" % name)
        else:
            ok = (f is None or f.get("success", False)) and not msgs
            if ob["kind"] == "canary":
                verdict, why = ("ok", "") if not ok else ("undecided", "canary proof was accepted: the unit is vacuous or verus is not checking")
            elif ok:
                verdict, why = "ok", ""
            else:
                text = "; ".join(msgs) if msgs else "verification failed"
                if re.search(r"rlimit|resource limit|timed? ?out", text, re.I):
                    verdict, why = "undecided", text
                else:
                    verdict, why = "violation", text
        recs.append({"obligation": "%s::%s" % (upath.stem, name), "id": ob["id"], "backend": "verus/z3", "solver": "z3", "kind": ob["kind"], "function": ob["fn"], "desc": ob["desc"],
                     "bound": ob.get("bound", ""), "verdict": verdict, "why": why, "seconds": (f or {}).get("time-micros", 0) / 1e6,
                     "checks": 1, "output": "\n".join(l for l in diag.splitlines() if not l.startswith(("{", " ", "}")) or "-->" in l or "|" in l)[-3000:] if verdict != "ok" else "",
                     "failed_checks": [{"description": x} for x in msgs], "unit": upath.stem})
    trusted = scan_assumptions(src)
    for a in ex.assumptions:
        trusted.add("verus unit %s: %s" % (upath.stem, a))
    info = {"unit": upath.stem, "generated_file": str(outp.name), "rewrites": ex.log, "verified": vr.get("verified"), "errors": vr.get("errors"), "wall_s": round(time.time() - t0, 1)}
    return recs, trusted, info, " ".join(cmd[:1] + ["<generated>"] + cmd[2:])


def run(prop, tier, obs, work, logp):
    recs, trusted, ext, cmds = [], set(), [], []
    for o in obs:
        r, t, info, cmd = run_unit(o["file"], o["meta"], work / "verus", logp)
        recs.extend(r)
        trusted.update(t)
        ext.append(info)
        cmds.append(cmd)
    trusted.add("Verus 0.2026.09.13 + Z3; extraction rules V1-V9 of DESIGN.md §3.2 (each application logged in extraction_diff)")
    return recs, trusted, ext, " ;; ".join(sorted(set(cmds)))
