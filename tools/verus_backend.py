"""Verus back end: mechanical extraction of real functions into one file + contract splice (filled in below)."""
def obligations(prop, tier):
    return []
def run(prop, tier, obs, work, logp):
    return [], set(), {}, ""
