// vnative — native exhaustive enumerators and witness searches against the REAL crate (public API only).
// Linked against a fresh copy of /repo's working tree on every run.  Output: one JSON object on the last line.
#[path = "../../spec/rules.rs"]
#[allow(dead_code)]
mod sp;

use chess::*;

fn main() {
    let args: Vec<String> = std::env::args().collect();
    let cmd = args.get(1).map(|s| s.as_str()).unwrap_or("");
    let seed: u64 = args.get(2).and_then(|s| s.parse().ok()).unwrap_or(0);
    match cmd {
        "c15" => c15(seed),
        "c11" => c11(seed),
        "c11_ep" => c11_ep(),
        "c10" => c10(seed),
        _ => {
            eprintln!("unknown subcommand");
            std::process::exit(2);
        }
    }
}

struct Rng(u64);
impl Rng {
    fn next(&mut self) -> u64 {
        self.0 ^= self.0 << 13;
        self.0 ^= self.0 >> 7;
        self.0 ^= self.0 << 17;
        self.0
    }
}

/// C15: complete enumeration of every subset of the relevant squares for every square and both pieces,
/// each subset additionally combined with `noise` random occupancies of the irrelevant squares.
fn c15(seed: u64) {
    let mut rng = Rng(seed.wrapping_mul(0x9E3779B97F4A7C15) | 1);
    let mut cases: u64 = 0;
    let mut subsets: u64 = 0;
    for piece in 0..2 {
        for s in 0u8..64 {
            let rel = if piece == 0 { sp::s_relevant_rook(s) } else { sp::s_relevant_bishop(s) };
            // Carry-Rippler enumeration of all subsets of rel
            let mut sub: u64 = 0;
            loop {
                subsets += 1;
                for k in 0..4 {
                    let occ = if k == 0 { sub } else if k == 1 { sub | !rel } else { sub | (rng.next() & !rel) };
                    let sq = Square::new(s);
                    let got = if piece == 0 { get_rook_moves(sq, BitBoard(occ)).0 } else { get_bishop_moves(sq, BitBoard(occ)).0 };
                    let want = if piece == 0 { sp::s_rook_moves(s, occ) } else { sp::s_bishop_moves(s, occ) };
                    cases += 1;
                    if got != want {
                        println!(
                            "{{\"ok\":false,\"cases\":{},\"witness\":{{\"piece\":\"{}\",\"square\":{},\"occupancy\":\"{:#018x}\",\"got\":\"{:#018x}\",\"want\":\"{:#018x}\"}}}}",
                            cases, if piece == 0 { "rook" } else { "bishop" }, s, occ, got, want
                        );
                        std::process::exit(1);
                    }
                    #[cfg(target_feature = "bmi2")]
                    {
                        let g2 = if piece == 0 { get_rook_moves_bmi(sq, BitBoard(occ)).0 } else { get_bishop_moves_bmi(sq, BitBoard(occ)).0 };
                        if g2 != want {
                            println!(
                                "{{\"ok\":false,\"cases\":{},\"witness\":{{\"piece\":\"{}-bmi2\",\"square\":{},\"occupancy\":\"{:#018x}\",\"got\":\"{:#018x}\",\"want\":\"{:#018x}\"}}}}",
                                cases, if piece == 0 { "rook" } else { "bishop" }, s, occ, g2, want
                            );
                            std::process::exit(1);
                        }
                    }
                }
                sub = sub.wrapping_sub(rel) & rel;
                if sub == 0 {
                    break;
                }
            }
        }
    }
    let bmi = cfg!(target_feature = "bmi2");
    println!("{{\"ok\":true,\"cases\":{},\"subsets\":{},\"bmi2\":{}}}", cases, subsets, bmi);
}


// ---------------------------------------------------------------------------------------------------------
/// C11 witness search: random long games (biased to reversible moves), comparing Game::can_declare_draw with an
/// independent statement-level oracle: no result, and (current position occurred >= 3 times — same placement, side,
/// castling rights, en-passant possibility — or the last 100 half-moves had no pawn move and no capture).
fn pos_id(b: &Board) -> (Vec<u64>, Color, CastleRights, CastleRights, Option<File>) {
    let mut v = vec![];
    for p in ALL_PIECES.iter() {
        v.push(b.pieces(*p).0 & b.color_combined(Color::White).0);
        v.push(b.pieces(*p).0 & b.color_combined(Color::Black).0);
    }
    // en-passant POSSIBILITY: a legal en-passant capture exists
    let mut ep = None;
    if let Some(sq) = b.en_passant() {
        for m in MoveGen::new_legal(b) {
            if b.piece_on(m.get_source()) == Some(Piece::Pawn) && m.get_source().get_file() != m.get_dest().get_file() && b.piece_on(m.get_dest()).is_none() {
                ep = Some(sq.get_file());
            }
        }
    }
    (v, b.side_to_move(), b.castle_rights(Color::White), b.castle_rights(Color::Black), ep)
}
/// the same identity but with the library's coarser en-passant notion (flag set whenever an enemy pawn stands beside
/// the pushed pawn, capturable or not) — the known finding `c11_known_ep_identity` is exactly the gap between the two
fn pos_id_lib(b: &Board) -> (Vec<u64>, Color, CastleRights, CastleRights, Option<File>) {
    let mut id = pos_id(b);
    id.4 = b.en_passant().map(|s| s.get_file());
    id
}

fn c11(seed: u64) {
    let mut rng = Rng(seed.wrapping_mul(0x9E3779B97F4A7C15) | 1);
    let mut cases = 0u64;
    let deadline = std::time::Instant::now() + std::time::Duration::from_secs(20);
    while std::time::Instant::now() < deadline {
        let mut game = Game::new();
        let mut hist = vec![pos_id(&game.current_position())];
        let mut hist_lib = vec![pos_id_lib(&game.current_position())];
        let mut clock = 0u32;
        let mut text = String::new();
        for _ply in 0..260 {
            let b = game.current_position();
            if game.result().is_some() {
                break;
            }
            let moves: Vec<ChessMove> = MoveGen::new_legal(&b).collect();
            if moves.is_empty() {
                break;
            }
            // prefer reversible moves (no pawn move, no capture) 15 times out of 16
            let rev: Vec<ChessMove> = moves.iter().cloned().filter(|m| b.piece_on(m.get_source()) != Some(Piece::Pawn) && b.piece_on(m.get_dest()).is_none()).collect();
            let pool = if !rev.is_empty() && rng.next() % 16 != 0 { &rev } else { &moves };
            let m = pool[(rng.next() % pool.len() as u64) as usize];
            let irreversible = b.piece_on(m.get_source()) == Some(Piece::Pawn) || b.piece_on(m.get_dest()).is_some();
            if !game.make_move(m) {
                println!("{{\"ok\":false,\"cases\":{},\"witness\":{{\"what\":\"legal move refused\",\"moves\":\"{}\"}}}}", cases, text);
                std::process::exit(1);
            }
            text.push_str(&format!("{} ", m));
            clock = if irreversible { 0 } else { clock + 1 };
            let cur = pos_id(&game.current_position());
            hist.push(cur.clone());
            let occ = hist.iter().filter(|h| **h == cur).count();
            let want = game.result().is_none() && (occ >= 3 || clock >= 100);
            let cur_lib = pos_id_lib(&game.current_position());
            hist_lib.push(cur_lib.clone());
            let occ_lib = hist_lib.iter().filter(|h| **h == cur_lib).count();
            let want_lib = game.result().is_none() && (occ_lib >= 3 || clock >= 100);
            let got = game.can_declare_draw();
            cases += 1;
            // a disagreement explained by the en-passant identity gap alone is the separately reported known finding
            if got != want && got != want_lib {
                println!(
                    "{{\"ok\":false,\"cases\":{},\"witness\":{{\"what\":\"can_declare_draw disagrees with the rule\",\"got\":{},\"want\":{},\"occurrences\":{},\"halfmove_clock\":{},\"fen\":\"{}\",\"moves_from_start\":\"{}\"}}}}",
                    cases, got, want, occ, clock, game.current_position(), text.trim()
                );
                std::process::exit(1);
            }
        }
    }
    println!("{{\"ok\":true,\"cases\":{}}}", cases);
}


/// the known finding on position identity: a double push beside an enemy pawn that is PINNED (en-passant capture illegal)
/// gets an en-passant flag in the hash, so its first occurrence is not counted as a repetition of the later ones
fn c11_ep() {
    use std::str::FromStr;
    let mut g = Game::from_str("4r2k/3p4/8/4P3/8/8/8/4K3 b - - 0 1").unwrap();
    let line = ["d7d5", "e1d1", "e8e7", "d1e1", "e7e8", "e1d1", "e8e7", "d1e1", "e7e8"];
    for t in line.iter() {
        let m = ChessMove::from_str(t).unwrap();
        if !g.make_move(m) {
            println!("{{\"ok\":false,\"cases\":1,\"witness\":{{\"what\":\"legal move refused\",\"move\":\"{}\"}}}}", t);
            std::process::exit(1);
        }
    }
    // by the Laws the position after 1...d5 (en-passant capture impossible: the e5 pawn is pinned) has now occurred 3 times
    let got = g.can_declare_draw();
    if !got {
        println!("{{\"ok\":false,\"cases\":1,\"witness\":{{\"what\":\"threefold repetition not claimable: first occurrence carries an en-passant flag although the capture is illegal (pinned pawn)\",\"start\":\"4r2k/3p4/8/4P3/8/8/8/4K3 b - - 0 1\",\"moves\":\"d7d5 e1d1 e8e7 d1e1 e7e8 e1d1 e8e7 d1e1 e7e8\",\"can_declare_draw\":false,\"rule_says\":true}}}}");
        std::process::exit(1);
    }
    println!("{{\"ok\":true,\"cases\":1}}");
}


// ---------------------------------------------------------------------------------------------------------
/// C10 witness search: random interleavings of move attempts (legal and illegal), offers, accepts, resignations and
/// draw declarations from several start positions (including already finished ones), against an independent model of
/// the protocol written from the statement.  Supplies concrete action sequences for failing Verus obligations.
#[derive(Clone, Copy, PartialEq, Debug)]
enum MAct { Move(ChessMove), Offer(Color), Accept, Declare, Resign(Color) }

fn model_result(start: &Board, log: &[MAct]) -> Option<GameResult> {
    let mut b = *start;
    for a in log { if let MAct::Move(m) = a { b = b.make_move_new(*m); } }
    let moves = MoveGen::new_legal(&b).len();
    if moves == 0 {
        if *b.checkers() != EMPTY {
            return Some(if b.side_to_move() == Color::White { GameResult::BlackCheckmates } else { GameResult::WhiteCheckmates });
        }
        return Some(GameResult::Stalemate);
    }
    match log.last() {
        Some(MAct::Accept) => Some(GameResult::DrawAccepted),
        Some(MAct::Declare) => Some(GameResult::DrawDeclared),
        Some(MAct::Resign(Color::White)) => Some(GameResult::WhiteResigns),
        Some(MAct::Resign(Color::Black)) => Some(GameResult::BlackResigns),
        _ => None,
    }
}

fn c10(seed: u64) {
    use std::str::FromStr;
    let mut rng = Rng(seed.wrapping_mul(0x9E3779B97F4A7C15) | 1);
    let starts = [
        "rnbqkbnr/pppppppp/8/8/8/8/PPPPPPPP/RNBQKBNR w KQkq - 0 1",
        "rnb1kbnr/pppp1ppp/8/4p3/6Pq/5P2/PPPPP2P/RNBQKBNR w KQkq - 1 3", // fool's mate: already checkmate
        "7k/5Q2/6K1/8/8/8/8/8 b - - 0 1",                                 // already stalemate
        "r3k2r/8/8/8/8/8/8/R3K2R b KQkq - 0 1",
        "8/8/8/8/8/5k2/6q1/7K w - - 0 1",                                 // checkmate, white to move
        "4k3/8/8/8/8/8/4P3/4K3 b - - 0 1",
    ];
    let mut cases = 0u64;
    let deadline = std::time::Instant::now() + std::time::Duration::from_secs(15);
    while std::time::Instant::now() < deadline {
        let fen = starts[(rng.next() % starts.len() as u64) as usize];
        let start = Board::from_str(fen).unwrap();
        let mut g = Game::new_with_board(start);
        let mut log: Vec<MAct> = vec![];
        let mut text = String::new();
        for _ in 0..24 {
            let before = model_result(&start, &log);
            let mut cur = start;
            for a in &log { if let MAct::Move(m) = a { cur = cur.make_move_new(*m); } }
            let legal: Vec<ChessMove> = MoveGen::new_legal(&cur).collect();
            let k = rng.next() % 10;
            let (act, got): (MAct, bool) = if k < 4 && !legal.is_empty() {
                let m = legal[(rng.next() % legal.len() as u64) as usize];
                (MAct::Move(m), g.make_move(m))
            } else if k < 5 {
                let m = ChessMove::new(Square::new((rng.next() % 64) as u8), Square::new((rng.next() % 64) as u8), None);
                (MAct::Move(m), g.make_move(m))
            } else if k < 7 {
                let c = if rng.next() % 2 == 0 { Color::White } else { Color::Black };
                (MAct::Offer(c), g.offer_draw(c))
            } else if k < 8 {
                (MAct::Accept, g.accept_draw())
            } else if k < 9 {
                let c = if rng.next() % 2 == 0 { Color::White } else { Color::Black };
                (MAct::Resign(c), g.resign(c))
            } else {
                (MAct::Declare, g.declare_draw())
            };
            text.push_str(&format!("{:?}->{} ", act, got));
            // model: what should have happened
            let stm_now = cur.side_to_move();
            let want = match act {
                _ if before.is_some() => false,
                MAct::Move(m) => legal.contains(&m),
                MAct::Offer(_) | MAct::Resign(_) => true,
                MAct::Accept => match log.last() {
                    Some(MAct::Offer(_)) => true,
                    Some(MAct::Move(_)) => log.len() > 1 && log[log.len() - 2] == MAct::Offer(!stm_now),
                    _ => false,
                },
                MAct::Declare => got, // claimability itself is C11
            };
            if want { log.push(act); }
            cases += 1;
            let mut pos = start;
            for a in &log { if let MAct::Move(m) = a { pos = pos.make_move_new(*m); } }
            let ok = got == want
                && g.result() == model_result(&start, &log)
                && g.current_position() == pos
                && g.side_to_move() == pos.side_to_move()
                && g.actions().len() == log.len();
            if !ok {
                println!(
                    "{{\"ok\":false,\"cases\":{},\"witness\":{{\"what\":\"Game disagrees with the protocol model\",\"start\":\"{}\",\"actions_and_returns\":\"{}\",\"last_return\":{},\"expected_return\":{},\"result\":\"{:?}\",\"expected_result\":\"{:?}\",\"log_len\":{},\"expected_log_len\":{}}}}}",
                    cases, fen, text.trim(), got, want, g.result(), model_result(&start, &log), g.actions().len(), log.len()
                );
                std::process::exit(1);
            }
        }
    }
    println!("{{\"ok\":true,\"cases\":{}}}", cases);
}
