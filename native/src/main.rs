// vnative — native exhaustive enumerators and witness searches against the REAL crate (public API only).
// Linked against a fresh copy of /repo's working tree on every run.  Output: one JSON object on the last line.
#[path = "../../spec/rules.rs"]
#[allow(dead_code)]
mod sp;

use chess::*;

fn main() {
    let args: Vec<String> = std::env::args().collect();
    let cmd = args.get(1).map(|s| s.as_str()).unwrap_or("");
    let seed: u64 = args.get(2).and_then(|s| s.parse().ok()).unwrap_or(0);
    match cmd {
        "c15" => c15(seed),
        _ => {
            eprintln!("unknown subcommand");
            std::process::exit(2);
        }
    }
}

struct Rng(u64);
impl Rng {
    fn next(&mut self) -> u64 {
        self.0 ^= self.0 << 13;
        self.0 ^= self.0 >> 7;
        self.0 ^= self.0 << 17;
        self.0
    }
}

/// C15: complete enumeration of every subset of the relevant squares for every square and both pieces,
/// each subset additionally combined with `noise` random occupancies of the irrelevant squares.
fn c15(seed: u64) {
    let mut rng = Rng(seed.wrapping_mul(0x9E3779B97F4A7C15) | 1);
    let mut cases: u64 = 0;
    let mut subsets: u64 = 0;
    for piece in 0..2 {
        for s in 0u8..64 {
            let rel = if piece == 0 { sp::s_relevant_rook(s) } else { sp::s_relevant_bishop(s) };
            // Carry-Rippler enumeration of all subsets of rel
            let mut sub: u64 = 0;
            loop {
                subsets += 1;
                for k in 0..4 {
                    let occ = if k == 0 { sub } else if k == 1 { sub | !rel } else { sub | (rng.next() & !rel) };
                    let sq = Square::new(s);
                    let got = if piece == 0 { get_rook_moves(sq, BitBoard(occ)).0 } else { get_bishop_moves(sq, BitBoard(occ)).0 };
                    let want = if piece == 0 { sp::s_rook_moves(s, occ) } else { sp::s_bishop_moves(s, occ) };
                    cases += 1;
                    if got != want {
                        println!(
                            "{{\"ok\":false,\"cases\":{},\"witness\":{{\"piece\":\"{}\",\"square\":{},\"occupancy\":\"{:#018x}\",\"got\":\"{:#018x}\",\"want\":\"{:#018x}\"}}}}",
                            cases, if piece == 0 { "rook" } else { "bishop" }, s, occ, got, want
                        );
                        std::process::exit(1);
                    }
                    #[cfg(target_feature = "bmi2")]
                    {
                        let g2 = if piece == 0 { get_rook_moves_bmi(sq, BitBoard(occ)).0 } else { get_bishop_moves_bmi(sq, BitBoard(occ)).0 };
                        if g2 != want {
                            println!(
                                "{{\"ok\":false,\"cases\":{},\"witness\":{{\"piece\":\"{}-bmi2\",\"square\":{},\"occupancy\":\"{:#018x}\",\"got\":\"{:#018x}\",\"want\":\"{:#018x}\"}}}}",
                                cases, if piece == 0 { "rook" } else { "bishop" }, s, occ, g2, want
                            );
                            std::process::exit(1);
                        }
                    }
                }
                sub = sub.wrapping_sub(rel) & rel;
                if sub == 0 {
                    break;
                }
            }
        }
    }
    let bmi = cfg!(target_feature = "bmi2");
    println!("{{\"ok\":true,\"cases\":{},\"subsets\":{},\"bmi2\":{}}}", cases, subsets, bmi);
}
